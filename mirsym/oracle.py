"""Reference models (the oracles).  Each is small, written from the SCPI-99 / IEEE 488.2 rules and the
property statements, independent of microscpi's structure, and co-executed over the same symbolic bytes:
when a reference needs a condition the path does not decide yet it forks through Engine.truth, exactly
like the implementation does, so every leaf carries one implementation outcome and one reference outcome.
"""
import json
import os
import re

from .engine import Unsupported
from .natives import lower, _eq, _all_eq, in_range, Or, And, Not

HERE = os.path.dirname(os.path.abspath(__file__))


# ----------------------------------------------------------------------------- command tree from the declaration strings
def expand_decl(cmd):
    """'[SYSTem]:ERRor:NEXT?' -> (is_query, [spelled paths]) with every short/long/optional combination.
    short form = declared text minus lower-case letters, long form = full text upper-cased (SCPI-99 6.2.1)."""
    query = cmd.endswith('?')
    if query:
        cmd = cmd[:-1]
    parts = []
    for p in cmd.split(':'):
        p = p.strip()
        if not p:
            continue
        opt = p.startswith('[') and p.endswith(']')
        if opt:
            p = p[1:-1]
        short = ''.join(c for c in p if not c.islower())
        long = p.upper()
        parts.append((opt, short, long))
    paths = [()]
    for opt, short, long in parts:
        new = []
        for pre in paths:
            new.append(pre + (long,))
            if short != long:
                new.append(pre + (short,))
            if opt:
                new.append(pre)
        paths = new
    return query, sorted(set(p for p in paths if p))


STANDARD = {'StandardCommands': ['SYSTem:VERSion?'], 'ErrorCommands': ['SYSTem:ERRor:[NEXT]?', 'SYSTem:ERRor:COUNt?']}


class RefTree:
    def __init__(s, device_spec):
        s.decls = list(device_spec['cmds'])
        s.n_user = len(s.decls)
        k = len(s.decls)
        s.extra = {}
        for attr in ('StandardCommands', 'ErrorCommands'):     # ids are assigned in this order by the macro's documentation
            if attr in device_spec.get('attrs', []):
                for c in STANDARD[attr]:
                    s.extra[k] = c
                    k += 1
        s.cmds = {}       # spelled path -> {'cmd': id or None, 'query': id or None}
        s.children = {}   # spelled prefix -> set of next mnemonics
        allc = [(i, d['cmd']) for i, d in enumerate(s.decls)] + sorted(s.extra.items())
        for i, c in allc:
            q, paths = expand_decl(c)
            for p in paths:
                e = s.cmds.setdefault(p, {'cmd': None, 'query': None})
                e['query' if q else 'cmd'] = i
                for j in range(len(p)):
                    s.children.setdefault(p[:j], set()).add(p[j])
        s.spellings = {}
        for i, c in allc:
            q, paths = expand_decl(c)
            s.spellings[i] = (q, paths)

    def child(s, T, prefix, mnem):
        """the child of `prefix` whose spelling equals the (possibly symbolic) mnemonic ignoring ASCII case"""
        for name in sorted(s.children.get(prefix, ())):
            if len(name) != len(mnem):
                continue
            if T(_all_eq([lower(b) for b in mnem], [lower(c) for c in name.encode()])):
                return name
        return None

    def handler(s, path, query):
        e = s.cmds.get(path)
        if e is None:
            return None
        return e['query' if query else 'cmd']


# ----------------------------------------------------------------------------- SCPI path rules (C02)
def ref_message(tree, T, units, start=(), final=None):
    """units: list of dicts {'common': bool, 'abs': bool, 'mnems': [bytes...], 'query': bool} of ONE message.
    Returns list of expected handler ids in order, stopping (with the marker 'FAULT') at the first unit whose
    header is not defined: what happens to the rest of that message is C06's business."""
    cur = start
    log = []
    for u in units:
        if final is not None:
            final[0] = cur
        if u.get('empty'):
            continue
        if u['common']:
            name = tree.child(T, (), [42] + list(u['mnems'][0]))
            h = tree.handler((name,), u['query']) if name is not None else None
            if h is None or (h < tree.n_user and len(tree.decls[h]['params']) != u.get('nargs', 0)):
                log.append('FAULT')
                return log
            log.append(h)
            continue          # common commands leave the path untouched (SCPI-99 6.2.4)
        base = () if u['abs'] else cur
        path = base
        ok = True
        for m in u['mnems']:
            name = tree.child(T, path, list(m))
            if name is None:
                ok = False
                break
            path = path + (name,)
        h = tree.handler(path, u['query']) if ok else None
        if h is None or (h < tree.n_user and len(tree.decls[h]['params']) != u.get('nargs', 0)):
            log.append('FAULT')   # undefined header, or defined but called with the wrong number of parameters
            return log
        log.append(h)
        cur = path[:-1]       # the header without its last mnemonic
        if final is not None:
            final[0] = cur
    return log


def judge_path(exp_msgs, nunits, impl):
    """compare the implementation's handler log with the per-message reference logs.
    A faulty message contributes the calls before the fault, then all or none of the units after it (C06);
    the messages after it must be executed exactly as the reference says (from the root).
    returns None or (message index, text)"""
    pos = 0
    for mi, exp in enumerate(exp_msgs):
        if 'FAULT' in exp:
            pre = exp[:exp.index('FAULT')]
            if impl[pos:pos + len(pre)] != pre:
                return (mi, f'message {mi}: units before the faulty one should call {pre}, implementation called {impl[pos:pos + len(pre)]}')
            tail = []
            for e2 in exp_msgs[mi + 1:]:
                if 'FAULT' in e2:
                    return None       # a second faulty message: alignment ambiguous, nothing more is asserted
                tail += e2
            rest_lo = pos + len(pre)
            rest_hi = rest_lo + (nunits[mi] - len(pre) - 1)
            got_tail = impl[len(impl) - len(tail):] if tail else []
            if got_tail != tail or not (rest_lo + len(tail) <= len(impl) <= rest_hi + len(tail)):
                return (mi + 1, f'message {mi} is faulty at unit {len(pre)}: its handler must not run, the units after it run all or none, '
                                f'and the following messages should call {tail} (resolved from the root); implementation log is {impl}')
            return None
        if impl[pos:pos + len(exp)] != exp:
            return (mi, f'message {mi} should call {exp}, implementation called {impl[pos:pos + len(exp)]} (whole log {impl})')
        pos += len(exp)
    if len(impl) != pos:
        return (len(exp_msgs), f'implementation called extra handlers: {impl[pos:]}')
    return None


# ----------------------------------------------------------------------------- header reference (C01)
def ref_header(tree, T, h):
    """reference verdict for a program header given as (symbolic) bytes, resolved from the root:
    ('handler', id) | ('undefined',) | ('malformed',)
    grammar: [':'] mnemonic (':' mnemonic)* ['?']  |  '*' mnemonic ['?'] ;  mnemonic = letter (letter | digit | '_')*"""
    n = len(h)
    if n == 0:
        return ('malformed',)
    alpha = lambda b: Or(in_range(b, 65, 90), in_range(b, 97, 122))
    word = lambda b: Or(in_range(b, 48, 57), in_range(b, 65, 90), in_range(b, 97, 122), _eq(b, 95))
    i = 0
    common = False
    if T(_eq(h[0], 42)):
        common = True
        i = 1
    elif T(_eq(h[0], 58)):
        i = 1
    mnems = []
    while True:
        if i >= n or not T(alpha(h[i])):
            return ('malformed',)
        st = i
        i += 1
        while i < n and T(word(h[i])):
            i += 1
        mnems.append(h[st:i])
        if i < n and not common and T(_eq(h[i], 58)):
            i += 1
            continue
        break
    query = False
    if i < n and T(_eq(h[i], 63)):
        query = True
        i += 1
    if i != n:
        return ('malformed',)
    path = ()
    if common:
        name = tree.child(T, (), [42] + list(mnems[0]))
        if name is None:
            return ('undefined',)
        path = (name,)
    else:
        for m in mnems:
            name = tree.child(T, path, list(m))
            if name is None:
                return ('undefined',)
            path = path + (name,)
    hid = tree.handler(path, query)
    if hid is None:
        return ('undefined',)
    return ('handler', hid)
