"""Regenerate every artefact the checks need from /repo's current working tree:

  work/vdev/            the generated device crate (real #[microscpi::interface] impls) + vreplay
  work/mir_micro.txt    -Zunpretty=mir of microscpi (default features = no_std), nightly
  work/mir_vdev.txt     -Zunpretty=mir of vdev (macro output: statics, execute_command), nightly
  work/tgt-stable/debug/vreplay   native replay binary (default toolchain, dev profile)

A content hash over /repo (minus target/.git) and /verif/gen + devices.json keys a cache, so that
several checks run in a row share one build; any change to the sources changes the key.
VERIF_NO_CACHE=1 forces regeneration.
"""
import fcntl
import hashlib
import os
import re
import subprocess
import sys
import time

VERIF = os.path.dirname(os.path.dirname(os.path.abspath(__file__)))
REPO = os.environ.get('VERIF_REPO', '/repo')
WORK = os.environ.get('VERIF_WORK') or os.path.join(VERIF, 'work')

ENV = dict(os.environ, CARGO_NET_OFFLINE='true', CARGO_TERM_COLOR='never')
ENV.pop('RUSTUP_TOOLCHAIN', None)


class BuildError(Exception):
    pass


def tree_hash():
    h = hashlib.sha256()
    roots = [REPO, os.path.join(VERIF, 'gen'), os.path.join(VERIF, 'devices.json')]
    for root in roots:
        if os.path.isfile(root):
            h.update(root.encode())
            h.update(open(root, 'rb').read())
            continue
        for dp, dn, fn in os.walk(root):
            dn[:] = sorted(d for d in dn if d not in ('target', '.git', '__pycache__'))
            for f in sorted(fn):
                p = os.path.join(dp, f)
                if os.path.islink(p) or not os.path.isfile(p):
                    continue
                h.update(p.encode())
                h.update(b'\0')
                try:
                    h.update(open(p, 'rb').read())
                except OSError:
                    pass
                h.update(b'\0')
    return h.hexdigest()


def _write_if_changed(path, content):
    if os.path.exists(path) and open(path).read() == content:
        return
    with open(path, 'w') as f:
        f.write(content)


def ensure(release=False, log=print, std=False, macros=False):
    """returns dict of artefact paths; raises BuildError if /repo does not build"""
    os.makedirs(WORK, exist_ok=True)
    lock = open(os.path.join(WORK, '.lock'), 'w')
    fcntl.flock(lock, fcntl.LOCK_EX)
    try:
        key = tree_hash()
        stamp = os.path.join(WORK, 'stamp')
        paths = {
            'mir_micro': os.path.join(WORK, 'mir_micro.txt'),
            'mir_vdev': os.path.join(WORK, 'mir_vdev.txt'),
            'vreplay': os.path.join(WORK, 'tgt-stable', 'debug', 'vreplay'),
            'vreplay_release': os.path.join(WORK, 'tgt-stable', 'release', 'vreplay'),
            'mir_micro_std': os.path.join(WORK, 'mir_micro_std.txt'),
            'vreplay_std': os.path.join(WORK, 'tgt-stable-std', 'debug', 'vreplay'),
            'mir_macros': os.path.join(WORK, 'mir_macros.txt'),
            'key': key,
            'timings': {},
        }
        have = open(stamp).read().strip() if os.path.exists(stamp) else ''
        fresh = (have == key and all(os.path.exists(paths[k]) for k in ('mir_micro', 'mir_vdev', 'vreplay'))
                 and not os.environ.get('VERIF_NO_CACHE'))
        if not fresh:
            if os.path.exists(stamp):
                os.remove(stamp)
            t = paths['timings']
            vdev = os.path.join(WORK, 'vdev')
            sys.path.insert(0, os.path.join(VERIF, 'gen'))
            import gen_vdev
            devs = gen_vdev.load_devices(os.path.join(VERIF, 'devices.json'))
            os.makedirs(os.path.join(vdev, 'src', 'bin'), exist_ok=True)
            # generate (only rewriting changed files keeps cargo's fingerprints useful)
            saved = sys.argv
            tmp_out = os.path.join(WORK, 'vdev.new')
            sys.argv = ['gen_vdev.py', tmp_out, os.path.join(REPO, 'microscpi'), '--lock', os.path.join(REPO, 'Cargo.lock')]
            try:
                gen_vdev.main()
            finally:
                sys.argv = saved
            for dp, dn, fn in os.walk(tmp_out):
                for f in fn:
                    src = os.path.join(dp, f)
                    dst = os.path.join(vdev, os.path.relpath(src, tmp_out))
                    os.makedirs(os.path.dirname(dst), exist_ok=True)
                    _write_if_changed(dst, open(src).read())
            subprocess.run(['rm', '-rf', tmp_out])
            cfgkey = 'verif_key="%s"' % key[:16]
            # MIR of microscpi itself, built exactly as a no_std user builds it (default features)
            t['mir_micro_s'] = _run(['cargo', '+nightly', 'rustc', '--offline', '--lib', '--', '-Zunpretty=mir', '-C', 'debug-assertions=off',
                                     '-C', 'overflow-checks=on', '--cfg', cfgkey, '-A', 'warnings'],
                                    os.path.join(REPO, 'microscpi'), paths['mir_micro'] + '.tmp', 'MIR dump of microscpi (default features, no_std)')
            os.replace(paths['mir_micro'] + '.tmp', paths['mir_micro'])
            t['mir_vdev_s'] = _run(['cargo', '+nightly', 'rustc', '--offline', '--lib', '--', '-Zunpretty=mir', '-C', 'debug-assertions=off',
                                    '-C', 'overflow-checks=on', '--cfg', cfgkey, '-A', 'warnings'],
                                   vdev, paths['mir_vdev'] + '.tmp', 'MIR dump of the generated device crate')
            os.replace(paths['mir_vdev'] + '.tmp', paths['mir_vdev'])
            t['vreplay_s'] = _run(['cargo', 'build', '--offline', '--bin', 'vreplay'], vdev, None, 'build of the native replay binary')
            for k in ('mir_micro', 'mir_vdev'):
                if os.path.getsize(paths[k]) < 1000:
                    raise BuildError(f'{k}: empty MIR dump')
            with open(stamp, 'w') as f:
                f.write(key)
            log(f'[build] regenerated artefacts from {REPO} in {sum(t.values()):.1f}s (key {key[:12]})')
        else:
            log(f'[build] artefacts up to date for tree {key[:12]}')
        if std and not (os.path.exists(paths['mir_micro_std']) and os.path.exists(paths['vreplay_std']) and os.path.exists(stamp + '.std') and open(stamp + '.std').read() == key):
            vdev = os.path.join(WORK, 'vdev')
            paths['timings']['mir_micro_std_s'] = _run(['cargo', '+nightly', 'rustc', '--offline', '--lib', '--features', 'std', '--', '-Zunpretty=mir', '-C', 'debug-assertions=off',
                                                        '-C', 'overflow-checks=on', '--cfg', 'verif_key="%s"' % key[:16], '-A', 'warnings'],
                                                       os.path.join(REPO, 'microscpi'), paths['mir_micro_std'] + '.tmp', 'MIR dump of microscpi with the std feature')
            os.replace(paths['mir_micro_std'] + '.tmp', paths['mir_micro_std'])
            paths['timings']['vreplay_std_s'] = _run(['cargo', 'build', '--offline', '--bin', 'vreplay', '--features', 'stdw'], vdev, None, 'build of the std-writer replay binary', target='tgt-stable-std')
            with open(stamp + '.std', 'w') as f:
                f.write(key)
        if macros:
            _ensure_macros(paths, key, stamp)
        if release and not (os.path.exists(paths['vreplay_release']) and os.path.exists(stamp + '.release') and open(stamp + '.release').read() == key):
            vdev = os.path.join(WORK, 'vdev')
            paths['timings']['vreplay_release_s'] = _run(['cargo', 'build', '--offline', '--release', '--bin', 'vreplay'], vdev, None, 'release build of vreplay')
            with open(stamp + '.release', 'w') as f:
                f.write(key)
        return paths
    finally:
        fcntl.flock(lock, fcntl.LOCK_UN)
        lock.close()


def _ensure_macros(paths, key, stamp):
    """MIR of the proc-macro crate itself (host crate, std): Command::try_from / paths, Tree::insert / insert_at"""
    if os.path.exists(paths['mir_macros']) and os.path.exists(stamp + '.macros') and open(stamp + '.macros').read() == key and not os.environ.get('VERIF_NO_CACHE'):
        return
    paths['timings']['mir_macros_s'] = _run(['cargo', '+nightly', 'rustc', '--offline', '--lib', '--', '-Zunpretty=mir', '-C', 'debug-assertions=off',
                                             '-C', 'overflow-checks=on', '--cfg', 'verif_key="%s"' % key[:16], '-A', 'warnings'],
                                            os.path.join(REPO, 'microscpi-macros'), paths['mir_macros'] + '.raw', 'MIR dump of microscpi-macros')
    txt = open(paths['mir_macros'] + '.raw').read()
    if len(txt) < 1000:
        raise BuildError('mir_macros: empty MIR dump')
    # the host crate prints std paths in full; the engine's models are keyed on the trimmed names a no_std crate prints
    txt = re.sub(r'\bstd::(ops|default|str|slice|iter|cmp|clone|convert|option|result)::(?=[A-Z])', '', txt)
    with open(paths['mir_macros'] + '.tmp', 'w') as f:
        f.write(txt)
    os.replace(paths['mir_macros'] + '.tmp', paths['mir_macros'])
    os.remove(paths['mir_macros'] + '.raw')
    with open(stamp + '.macros', 'w') as f:
        f.write(key)


def ensure_macros_only(log=print):
    """artefacts for checks on the proc-macro crate alone (C14): they must not depend on the generated device crate compiling"""
    os.makedirs(WORK, exist_ok=True)
    lock = open(os.path.join(WORK, '.lock'), 'w')
    fcntl.flock(lock, fcntl.LOCK_EX)
    try:
        key = tree_hash()
        paths = {'mir_macros': os.path.join(WORK, 'mir_macros.txt'), 'key': key, 'timings': {}, 'no_world': True}
        _ensure_macros(paths, key, os.path.join(WORK, 'stamp'))
        log(f'[build] MIR of microscpi-macros for tree {key[:12]}' + (f" regenerated in {paths['timings']['mir_macros_s']:.1f}s" if paths['timings'] else ' up to date'))
        return paths
    finally:
        fcntl.flock(lock, fcntl.LOCK_UN)
        lock.close()


# cargo target dirs: keep nightly and stable apart, both outside /repo
def _run(cmd, cwd, out=None, what='', target=None):
    env = dict(ENV)
    env['CARGO_TARGET_DIR'] = os.path.join(WORK, target or ('tgt-nightly' if '+nightly' in cmd else 'tgt-stable'))
    t0 = time.time()
    p = subprocess.run(cmd, cwd=cwd, env=env, stdout=open(out, 'w') if out else subprocess.PIPE, stderr=subprocess.PIPE, text=True)
    if p.returncode != 0:
        lines = p.stderr.splitlines()
        errs = [i for i, l in enumerate(lines) if l.startswith('error')]
        tail = '\n'.join(sum((lines[i:i + 14] for i in errs[:3]), [])) if errs else '\n'.join(lines[-40:])
        raise BuildError(f'{what or cmd} failed (exit {p.returncode}):\n{tail}')
    return time.time() - t0


if __name__ == '__main__':
    try:
        p = ensure(release='--release' in sys.argv, std='--std' in sys.argv, macros='--macros' in sys.argv)
        print(p)
    except BuildError as e:
        print('BUILD FAILED:', e)
        sys.exit(2)
