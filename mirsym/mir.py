"""Reader for rustc's `-Zunpretty=mir` text: items, locals, basic blocks.

Only splits the text into items/blocks/statements; the statements themselves
are compiled lazily by engine.Compiler the first time a function is executed.
"""
import re


class Fn:
    __slots__ = ('name', 'params', 'ret', 'kind', 'blocks', 'local_ty', 'crate', 'code', 'nlocals',
                 'span_lines', 'is_cleanup', 'src_line')

    def __init__(s, name, params, ret, kind, crate):
        s.name, s.params, s.ret, s.kind, s.crate = name, params, ret, kind, crate
        s.blocks = {}       # bb index -> list[str] (statements, last one is the terminator)
        s.is_cleanup = set()
        s.local_ty = {}     # local index -> type string
        s.code = None
        s.nlocals = 0
        s.src_line = 0

    def __repr__(s):
        return f'<Fn {s.crate}:{s.name}>'


_CHAR_RE = re.compile(r"'(\\.|\\u\{[0-9a-fA-F]+\}|\\x[0-9a-fA-F]{2}|[^\\'])'")


def split_top(s, sep=','):
    """split on sep at bracket depth 0 (brackets: ([{<), strings and char literals respected,
    '->' and '=>' are not brackets)"""
    out, depth, i, start = [], 0, 0, 0
    n = len(s)
    while i < n:
        c = s[i]
        if c == '"':
            i += 1
            while i < n and s[i] != '"':
                if s[i] == '\\':
                    i += 1
                i += 1
        elif c == "'":
            m = _CHAR_RE.match(s, i)
            if m:
                i = m.end() - 1
        elif c == '-' and s.startswith('->', i):
            i += 1
        elif c == '=' and s.startswith('=>', i):
            i += 1
        elif c in '([{<':
            depth += 1
        elif c in ')]}>':
            depth -= 1
        elif c == sep and depth == 0:
            out.append(s[start:i].strip())
            start = i + 1
        i += 1
    last = s[start:].strip()
    if last:
        out.append(last)
    return out


def find_matching(s, i):
    """s[i] is an opening bracket; return index of its match"""
    depth = 0
    n = len(s)
    while i < n:
        c = s[i]
        if c == '"':
            i += 1
            while i < n and s[i] != '"':
                if s[i] == '\\':
                    i += 1
                i += 1
        elif c == "'":
            m = _CHAR_RE.match(s, i)
            if m:
                i = m.end() - 1
        elif c == '-' and s.startswith('->', i):
            i += 1
        elif c == '=' and s.startswith('=>', i):
            i += 1
        elif c in '([{<':
            depth += 1
        elif c in ')]}>':
            depth -= 1
            if depth == 0:
                return i
        i += 1
    raise ValueError('unbalanced: ' + s)


def find_top(s, needle, start=0):
    """index of first occurrence of needle at bracket depth 0, or -1"""
    depth, i, n = 0, start, len(s)
    while i < n:
        c = s[i]
        if depth == 0 and s.startswith(needle, i):
            return i
        if c == '"':
            i += 1
            while i < n and s[i] != '"':
                if s[i] == '\\':
                    i += 1
                i += 1
        elif c == "'":
            m = _CHAR_RE.match(s, i)
            if m:
                i = m.end() - 1
        elif c == '-' and s.startswith('->', i):
            i += 1
        elif c == '=' and s.startswith('=>', i):
            i += 1
        elif c in '([{<':
            depth += 1
        elif c in ')]}>':
            depth -= 1
        i += 1
    return -1


_FN_RE = re.compile(r'^(fn|const|static) (.*)$')
_ALLOC_STATIC_RE = re.compile(r'^alloc(\d+) \(static: ([^,)\s]+)')
_LET_RE = re.compile(r'^let (?:mut )?_(\d+): (.*);$')
_BB_RE = re.compile(r'^bb(\d+)( \(cleanup\))?: \{$')


def read_mir(path, crate):
    """returns (fns: name -> Fn, allocs: 'allocN' -> static name)"""
    fns = {}
    allocs = {}
    cur = None
    bb = None
    lineno = 0
    dup = {}
    for raw in open(path, encoding='utf-8', errors='replace'):
        lineno += 1
        line = raw.rstrip('\n')
        if not line.strip():
            continue
        if line[0] not in ' }':
            m = _FN_RE.match(line)
            if m and line.endswith('{'):
                kind, rest = m.group(1), m.group(2)[:-1].strip()
                if kind == 'fn':
                    depth = 0
                    i = 0
                    pstart = None
                    while i < len(rest):
                        c = rest[i]
                        if c in '<{[':
                            depth += 1
                        elif c in '>}]':
                            depth -= 1
                        elif c == '(' and depth == 0:
                            pstart = i
                            break
                        i += 1
                    pend = find_matching(rest, pstart)
                    name = rest[:pstart]
                    params = []
                    for p in split_top(rest[pstart + 1:pend]):
                        pm = re.match(r'(?:mut )?_(\d+): (.*)$', p)
                        params.append((int(pm.group(1)), pm.group(2)))
                    ret = rest[pend + 1:].strip()
                    ret = ret[2:].strip() if ret.startswith('->') else '()'
                    cur = Fn(name, params, ret, 'fn', crate)
                else:
                    if ': ' in rest:
                        k = find_top(rest, ': ')
                        name, ty = rest[:k], rest[k + 2:]
                    else:
                        name, ty = rest, ''
                    ty = ty.strip()
                    if ty.endswith('='):
                        ty = ty[:-1].strip()
                    cur = Fn(name.strip(), [], ty, kind, crate)
                cur.src_line = lineno
                if cur.name in fns:
                    # macro-expanded impls share one span and therefore one MIR name: number the duplicates
                    dup[cur.name] = dup.get(cur.name, 1) + 1
                    cur.name = f'{cur.name}#{dup[cur.name]}'
                fns[cur.name] = cur
                bb = None
                continue
            m = _ALLOC_STATIC_RE.match(line)
            if m:
                allocs['alloc' + m.group(1)] = m.group(2)
                continue
            if re.match(r'^(const|static) ', line) and line.rstrip().endswith(';'):
                # one-line const:  const NAME: ty = const 10_usize;
                mm = re.match(r'^(const|static) (.*?): (.*?) = (.*);$', line)
                if mm:
                    f = Fn(mm.group(2), [], mm.group(3), mm.group(1), crate)
                    f.blocks[0] = ['_0 = ' + mm.group(4) + ';', 'return;']
                    f.local_ty[0] = mm.group(3)
                    f.src_line = lineno
                    fns[f.name] = f
                continue
            if not line.startswith('}'):
                cur = None
            continue
        if cur is None:
            continue
        s = line.strip()
        if bb is None:
            m = _LET_RE.match(s)
            if m:
                cur.local_ty[int(m.group(1))] = m.group(2)
                continue
        m = _BB_RE.match(s)
        if m:
            bb = int(m.group(1))
            cur.blocks[bb] = []
            if m.group(2):
                cur.is_cleanup.add(bb)
            continue
        if s == '}' and bb is not None:
            bb = None
            continue
        if bb is not None:
            cur.blocks[bb].append(s)
    for f in fns.values():
        for p, t in f.params:
            f.local_ty[p] = t
        if 0 not in f.local_ty:
            f.local_ty[0] = f.ret
        f.nlocals = (max(f.local_ty) + 1) if f.local_ty else 1
    return fns, allocs


# ----------------------------------------------------------------------------- types
_LIFETIME_RE = re.compile(r"'\w+\s*")
_PATH_RE = re.compile(r'(?:(?:[A-Za-z_][A-Za-z0-9_]*)::)+(?=[A-Za-z_{<\[(])')


def norm_type(t):
    """canonical spelling used for impl matching: no lifetimes, paths reduced to their last segment"""
    t = _LIFETIME_RE.sub('', t)
    t = t.replace('&mut ', '&').replace('dyn ', '')
    # drop leading '::'
    t = re.sub(r'(?<![A-Za-z0-9_>])::', '', t)
    prev = None
    while prev != t:
        prev = t
        t = _PATH_RE.sub('', t)
    t = re.sub(r'\s+', ' ', t).strip()
    t = t.replace('< ', '<').replace(' >', '>').replace('<>', '')
    return t


def parse_type(t):
    """type string -> tree: (head, [children]); head is an identifier, '&', 'tuple', 'slice', 'array'"""
    t = t.strip()
    if t.startswith('&'):
        return ('&', [parse_type(t[1:])])
    if t.startswith('(') and find_matching(t, 0) == len(t) - 1:
        return ('tuple', [parse_type(x) for x in split_top(t[1:-1])])
    if t.startswith('[') and find_matching(t, 0) == len(t) - 1:
        inner = t[1:-1]
        parts = split_top(inner, ';')
        if len(parts) == 2:
            return ('array', [parse_type(parts[0]), (parts[1].strip(), [])])
        return ('slice', [parse_type(inner)])
    k = t.find('<')
    if k > 0 and t.endswith('>') and find_matching(t, k) == len(t) - 1:
        return (t[:k], [parse_type(x) for x in split_top(t[k + 1:-1])])
    return (t, [])


GENERIC_NAMES = {'Self', 'A', 'B', 'C', 'D', 'T', 'N', 'I', 'F', 'G', 'W', 'E', 'U', 'R', 'M', 'K', 'V'}


def unify(pat, ty, env):
    """structural match of pattern tree against concrete tree; binds GENERIC_NAMES heads without children"""
    ph, pc = pat
    if ph in GENERIC_NAMES and not pc:
        s = type_str(ty)
        if ph in env:
            return env[ph] == s
        env[ph] = s
        return True
    th, tc = ty
    if ph == th and pc and not tc and ph not in ('tuple', 'slice', 'array', '&'):
        return True      # type recovered from a runtime value: generic arguments unknown
    if ph != th or len(pc) != len(tc):
        return False
    return all(unify(a, b, env) for a, b in zip(pc, tc))


def type_str(t):
    h, c = t
    if h == '&':
        return '&' + type_str(c[0])
    if h == 'tuple':
        return '(' + ', '.join(type_str(x) for x in c) + ')'
    if h == 'slice':
        return '[' + type_str(c[0]) + ']'
    if h == 'array':
        return '[' + type_str(c[0]) + '; ' + c[1][0] + ']'
    if c:
        return h + '<' + ', '.join(type_str(x) for x in c) + '>'
    return h


_INT_RE = re.compile(r'^([iu])(8|16|32|64|128|size)$')


def int_info(ty):
    """(signed, bits) for integer / char / bool types, else None"""
    ty = ty.strip()
    m = _INT_RE.match(ty)
    if m:
        return (m.group(1) == 'i', 64 if m.group(2) == 'size' else int(m.group(2)))
    if ty == 'char':
        return (False, 32)
    if ty == 'bool':
        return (False, 1)
    return None
