"""mirsym: symbolic executor for rustc MIR text, deciding branch feasibility with z3.

Byte *values* (and whatever is computed from them) are symbolic bit-vectors; all
structure (lengths, offsets, enum discriminants, container sizes) is concrete
per path.  A branch on a symbolic condition asks the solver which sides are
feasible and explores each (depth-first, by re-execution with a recorded decision
prefix).  Statements are compiled to Python closures the first time a function
is executed.
"""
import re
import sys
import time
import z3

from .mir import (Fn, split_top, find_matching, find_top, norm_type, parse_type, unify, type_str,
                  int_info, GENERIC_NAMES)

sys.setrecursionlimit(20000)


# ----------------------------------------------------------------------------- values
class Adt:
    __slots__ = ('ty', 'variant', 'f')

    def __init__(s, ty, variant, f):
        s.ty, s.variant, s.f = ty, variant, f

    def __repr__(s):
        return f'{s.ty}::{s.variant}{s.f}' if s.variant is not None else f'{s.ty}{s.f}'


class Tup:
    __slots__ = ('f',)

    def __init__(s, f):
        s.f = list(f)

    def __repr__(s):
        return 'T' + repr(tuple(s.f))


class Slice:
    """&[T] / &str / &mut [T]: view into a python list"""
    __slots__ = ('buf', 'start', 'len', 'is_str')

    def __init__(s, buf, start, ln, is_str=False):
        s.buf, s.start, s.len, s.is_str = buf, start, ln, is_str

    def items(s):
        return s.buf[s.start:s.start + s.len]

    def __repr__(s):
        it = s.items()
        if all(isinstance(x, int) for x in it):
            try:
                return ('str' if s.is_str else 'bytes') + repr(bytes(it))
            except ValueError:
                pass
        return f'Slice[{s.start}:{s.start + s.len}]'


class Ref:
    """reference to a cell: container (list/dict) and key"""
    __slots__ = ('c', 'k')

    def __init__(s, c, k):
        s.c, s.k = c, k

    def get(s):
        return s.c[s.k]

    def set(s, v):
        s.c[s.k] = v

    def __repr__(s):
        try:
            return f'&{s.c[s.k]!r}'
        except Exception:
            return '&?'


class Closure:
    __slots__ = ('span', 'f', 'env', 'dup')

    def __init__(s, span, f, env=None, dup=0):
        s.span, s.f, s.env, s.dup = span, f, env, dup

    def __repr__(s):
        return f'Closure@{s.span}'


class FnItem:
    __slots__ = ('name', 'env')

    def __init__(s, name, env=None):
        s.name, s.env = name, env

    def __repr__(s):
        return f'fn {s.name}'


class Iter:
    __slots__ = ('sl', 'pos', 'enum', 'by_value')

    def __init__(s, sl, enum=False):
        s.sl, s.pos, s.enum, s.by_value = sl, 0, enum, False


class HVec:
    """heapless::Vec<T, CAP> / heapless::String<CAP>; with std=True: std::vec::Vec / String of the std-feature build"""
    __slots__ = ('items', 'cap', 'is_str', 'std')

    def __init__(s, cap, is_str=False):
        s.items, s.cap, s.is_str, s.std = [], cap, is_str, False

    def __repr__(s):
        return f'HVec{s.items}/{s.cap}'


class Deque:
    __slots__ = ('items', 'cap')

    def __init__(s, cap):
        s.items, s.cap = [], cap


class Coroutine:
    __slots__ = ('body', 'up', 'state', 'saved', 'env')

    def __init__(s, body, up, env):
        s.body, s.up, s.state, s.saved, s.env = body, up, 0, {}, env

    def __repr__(s):
        return f'Coroutine<{s.body.name}>@{s.state}'


class CoVar:
    """downcast view of a coroutine: the saved locals of one suspend variant"""
    __slots__ = ('co', 'v')

    def __init__(s, co, v):
        s.co, s.v = co, v


class NativeFuture:
    """future implemented by the harness: Pending `pend` times, then Ready(v) (v may be a thunk)"""
    __slots__ = ('v', 'pend', 'thunk')

    def __init__(s, v=None, pend=0, thunk=None):
        s.v, s.pend, s.thunk = v, pend, thunk


class FmtArg:
    __slots__ = ('kind', 'v', 'ty')

    def __init__(s, kind, v, ty):
        s.kind, s.v, s.ty = kind, v, ty


class FmtArguments:
    __slots__ = ('template', 'args')

    def __init__(s, template, args):
        s.template, s.args = template, args


class Token:
    """a run of output bytes whose text is not modelled byte-wise: decimal text of a symbolic integer,
    or the Display text of a float"""
    __slots__ = ('kind', 'v', 'ty')

    def __init__(s, kind, v, ty):
        s.kind, s.v, s.ty = kind, v, ty

    def __repr__(s):
        return f'<{s.kind}:{s.ty}:{s.v}>'


class FloatVal:
    """f32/f64 value: bits is a python int or a z3 BitVec; src = the text it was parsed from; ops = what was done to it since"""
    __slots__ = ('bits', 'ty', 'src', 'ops', 'parsed_as')

    def __init__(s, bits, ty, src=None):
        s.bits, s.ty, s.src = bits, ty, src
        s.ops = None
        s.parsed_as = ty

    def __repr__(s):
        return f'{s.ty}({s.bits if isinstance(s.bits, int) else "sym"}{"" if s.src is None else " from " + repr(s.src)})'


class Opaque:
    """a value the executor carries around but never looks into (Context, native harness objects)"""
    __slots__ = ('what',)

    def __init__(s, what):
        s.what = what

    def __repr__(s):
        return f'<{s.what}>'


UNIT = Tup([])


class Panic(Exception):
    pass


class Unsupported(Exception):
    """the encoding cannot represent this execution: the run is inconclusive, never a pass"""
    pass


class Infeasible(Exception):
    pass


class StepLimit(Exception):
    pass


def Some(v):
    return Adt('Option', 'Some', [v])


def NONE():
    return Adt('Option', 'None', [])


def Ok(v):
    return Adt('Result', 'Ok', [v])


def Err(v):
    return Adt('Result', 'Err', [v])


def Ready(v):
    return Adt('Poll', 'Ready', [v])


def PENDING():
    return Adt('Poll', 'Pending', [])


BUILTIN_ENUMS = {
    'Option': ['None', 'Some'], 'Result': ['Ok', 'Err'], 'ControlFlow': ['Continue', 'Break'],
    'Poll': ['Ready', 'Pending'], 'Ordering': ['Less', 'Equal', 'Greater'],
}


def deref(v):
    while isinstance(v, Ref):
        v = v.get()
    return v


def copy_val(v):
    """value semantics for `copy`/`move` of aggregates"""
    t = type(v)
    if t is Adt:
        return Adt(v.ty, v.variant, [copy_val(x) for x in v.f])
    if t is Tup:
        return Tup([copy_val(x) for x in v.f]) if v.f else v
    if t is list:
        return [copy_val(x) for x in v]
    return v


def _dup_of(name):
    """index of a numbered duplicate (macro-expanded items share a name: f, f#1, f#2 ...)"""
    m = re.search(r'#(\d+)$', name)
    return int(m.group(1)) if m else 0


def is_sym(v):
    return isinstance(v, z3.ExprRef)


_BVV = {}
_SIMP = {}      # ast id -> (expr kept alive, constant truth or None, simplified, negation)


def bvval(x, w):
    k = (x, w)
    r = _BVV.get(k)
    if r is None:
        r = _BVV[k] = z3.BitVecVal(x, w)
    return r


def mask(v, signed, w):
    v &= (1 << w) - 1
    if signed and v >> (w - 1):
        v -= 1 << w
    return v


# ----------------------------------------------------------------------------- compiler
_SKIP_PREFIXES = ('StorageLive', 'StorageDead', 'nop', 'FakeRead', 'AscribeUserType', 'PlaceMention', 'Retag',
                  'Coverage', 'ConstEvalCounter', 'Deinit', '//', 'BackwardIncompatibleDropHint')
_BINOPS = {'Eq', 'Ne', 'Lt', 'Le', 'Gt', 'Ge', 'Add', 'Sub', 'Mul', 'Div', 'Rem', 'BitAnd', 'BitOr', 'BitXor', 'Shl', 'Shr',
           'AddWithOverflow', 'SubWithOverflow', 'MulWithOverflow', 'AddUnchecked', 'SubUnchecked', 'MulUnchecked',
           'ShlUnchecked', 'ShrUnchecked', 'Offset', 'Cmp'}
_CONST_INT_RE = re.compile(r'^(-?\d+)_([iu](?:8|16|32|64|128|size))$')
_LOCAL_RE = re.compile(r'^_(\d+)$')
_FIELD_RE = re.compile(r'\.(\d+): ')


class Place:
    __slots__ = ('get', 'set', 'ref', 'ty', 'is_deref')


class Engine:
    def __init__(s, enums):
        s.fns = {}            # (crate, name) -> Fn
        s.by_name = {}        # name -> [Fn]
        s.allocs = {}         # crate -> {allocN: static name}
        s.by_span = {}        # closure span -> Fn
        s.enums = dict(BUILTIN_ENUMS)
        s.enums.update(enums)
        s.variant_owner = {}
        for ty, names in s.enums.items():
            for n in names:
                s.variant_owner.setdefault(n, []).append(ty)
        s.natives = []        # (regex, fn)
        s.native_cache = {}
        s.intercepts = []     # (regex on fn name, fn)  -- harness stubs replacing MIR functions
        s.const_cache = {}
        s.resolve_cache = {}
        s.dyn_info = {}
        s.impl_index = None
        # exploration state
        s.solver = z3.Solver()
        s.prefix = []
        s.decisions = []
        s.dpos = 0
        s.pending = []
        s.pc = []
        s.steps = 0
        s.step_limit = 400_000
        s.queries = 0
        s.solver_time = 0.0
        s.model = None
        s.called = set()      # names of MIR functions executed (evidence: functions encoded)
        s.natives_used = set()
        s.alloc_calls = []    # C13: calls into alloc::/std:: met on a path
        s.last_ret = None     # (declared return type, env) of the MIR function that returned last (binds `impl Trait` locals)
        s.fork_limit = None
        import os as _os
        s.dump_dir = _os.environ.get('VERIF_SMT_DUMP')
        s.dump_every = int(_os.environ.get('VERIF_SMT_EVERY', '97'))
        s.dump_count = 0
        s.stack = []
        s.known = {}

    # ------------------------------------------------------------------ loading
    def load(s, fns, allocs, crate):
        s.allocs[crate] = allocs
        for name, f in fns.items():
            s.fns[(crate, name)] = f
            s.by_name.setdefault(name, []).append(f)
            if f.params:
                m = re.search(r'\{closure@([^}]*)\}', f.params[0][1])
                md = re.search(r'\{closure#\d+\}(?:#(\d+))?$', name)
                if m and md:
                    # macro-expanded functions share spans: one closure body per numbered duplicate of the enclosing function
                    s.by_span.setdefault(_span_key(m.group(1)), {})[int(md.group(1) or 0)] = f
        s.impl_index = None

    def lookup(s, name, crate=None):
        if crate is not None and (crate, name) in s.fns:
            return s.fns[(crate, name)]
        c = s.by_name.get(name)
        if c:
            return c[0]
        return None

    # ------------------------------------------------------------------ forking
    def decide(s, options):
        """options: list of (label, cond) with cond a z3 Bool or True; returns the chosen label"""
        if s.dpos < len(s.prefix):
            lab = s.prefix[s.dpos]
            s.dpos += 1
            for l, cond in options:
                if l == lab:
                    if cond is not True:
                        s.solver.add(cond)
                        s.pc.append(cond)
                    s.decisions.append(lab)
                    return lab
            raise Unsupported(f'replay diverged: label {lab!r} not among {[l for l, _ in options]}')
        feas = []
        for lab, cond in options:
            if cond is True:
                feas.append((lab, cond))
                continue
            if s.model is not None:
                try:
                    if z3.is_true(s.model.eval(cond, model_completion=True)):
                        feas.append((lab, cond))
                        continue
                except z3.Z3Exception:
                    pass
            s.queries += 1
            t0 = time.perf_counter()
            s.solver.push()
            s.solver.add(cond)
            r = s.solver.check()
            s.solver_time += time.perf_counter() - t0
            if s.dump_dir:
                s.dump_query(r)
            if r == z3.sat:
                if s.model is None:
                    s.model = s.solver.model()
                feas.append((lab, cond))
            elif r != z3.unsat:
                s.solver.pop()
                raise Unsupported('solver returned unknown')
            s.solver.pop()
        if not feas:
            raise Infeasible()
        base = s.decisions[:]
        for alt in feas[1:]:
            s.pending.append(base + [alt[0]])
        lab, cond = feas[0]
        s.decisions.append(lab)
        s.dpos += 1
        if cond is not True:
            s.solver.add(cond)
            s.pc.append(cond)
            # the cached model may not satisfy the new constraint
            if s.model is not None:
                try:
                    if not z3.is_true(s.model.eval(cond, model_completion=True)):
                        s.model = None
                except z3.Z3Exception:
                    s.model = None
        return lab

    def truth(s, v):
        if v is True or v is False:
            return v
        if isinstance(v, int):
            return v != 0
        if z3.is_bool(v):
            vid = v.get_id()
            k = s.known.get(vid)
            if k is not None:
                return k
            hit = _SIMP.get(vid)
            if hit is None:
                v2 = z3.simplify(v)
                if z3.is_true(v2):
                    hit = (v, True, None, None)
                elif z3.is_false(v2):
                    hit = (v, False, None, None)
                else:
                    hit = (v, None, v2, z3.Not(v2))
                _SIMP[vid] = hit
            if hit[1] is not None:
                return hit[1]
            v2, n2 = hit[2], hit[3]
            id2 = v2.get_id()
            k = s.known.get(id2)
            if k is None:
                k = s.decide([(True, v2), (False, n2)])
                s.known[id2] = k
            s.known[vid] = k
            return k
        if z3.is_bv(v):
            return s.truth(v != 0)
        raise Unsupported(f'truth of {v!r}')

    def concretize(s, v, lo=0, hi=255):
        """fork over the feasible values of a symbolic integer that must become structural"""
        if isinstance(v, bool):
            return int(v)
        if isinstance(v, int):
            return v
        v = z3.simplify(v)
        if z3.is_bv_value(v):
            return v.as_long()
        opts = [(k, v == k) for k in range(lo, hi + 1)]
        opts.append(('other', z3.Or(z3.ULT(v, lo), z3.UGT(v, hi)) if lo > 0 else z3.UGT(v, hi)))
        r = s.decide(opts)
        if r == 'other':
            raise Unsupported(f'symbolic value outside concretisation range {lo}..{hi}')
        return r

    def dump_query(s, r):
        """second-solver cross-check (thorough tier): every k-th query is written out as SMT-LIB2 with z3's verdict"""
        s.dump_count += 1
        if s.dump_count % s.dump_every:
            return
        try:
            import os
            txt = '(set-logic ALL)\n' + s.solver.to_smt2()
            name = os.path.join(s.dump_dir, f'q{os.getpid()}_{s.dump_count}_{"sat" if r == z3.sat else "unsat"}.smt2')
            with open(name, 'w') as f:
                f.write(txt)
        except Exception:
            pass

    def is_feasible(s, cond):
        """one solver query: is pc ∧ cond satisfiable?  returns (bool, model or None)"""
        s.queries += 1
        t0 = time.perf_counter()
        s.solver.push()
        s.solver.add(cond)
        r = s.solver.check()
        if s.dump_dir:
            s.dump_query(r)
        m = s.solver.model() if r == z3.sat else None
        s.solver.pop()
        s.solver_time += time.perf_counter() - t0
        if r == z3.unknown:
            raise Unsupported('solver returned unknown')
        return r == z3.sat, m

    def path_model(s):
        if s.model is not None:
            return s.model
        s.queries += 1
        t0 = time.perf_counter()
        r = s.solver.check()
        s.solver_time += time.perf_counter() - t0
        if r != z3.sat:
            raise Unsupported('path condition not satisfiable at leaf: ' + str(r))
        s.model = s.solver.model()
        return s.model

    # ------------------------------------------------------------------ exploration driver
    def run_path(s, prefix, body):
        """execute body() under the decision prefix; returns (outcome, new pending prefixes)"""
        s.prefix = list(prefix)
        s.decisions = []
        s.dpos = 0
        s.pc = []
        s.pending = []
        s.model = None
        s.steps = 0
        s.alloc_calls = []
        s.stack = []
        s.known = {}
        s.solver.push()
        try:
            try:
                res = body()
                out = ('ok', res)
            except Panic as e:
                out = ('panic', str(e))
            except StepLimit as e:
                out = ('hang', str(e))
            except Infeasible:
                out = ('infeasible', None)
            return out, s.pending
        finally:
            pass

    def end_path(s):
        s.solver.pop()

    # ------------------------------------------------------------------ calls
    def call_fn(s, fn, args, env=None):
        for pat, nat in s.intercepts:
            if pat.search(fn.name):
                r = nat(s, fn, args, env)
                if r is not NotImplemented:
                    return r
        code = fn.code
        if code is None:
            code = Compiler(s, fn).compile()
        s.called.add(fn.name)
        s.stack.append(fn.name)
        fr = Frame(fn.nlocals)
        fr.env = env
        for (p, _), a in zip(fn.params, args):
            fr[p] = a
        bb = 0
        while True:
            stmts, term = code[bb]
            for st in stmts:
                st(fr)
            s.steps += len(stmts) + 1
            if s.steps > s.step_limit:
                raise StepLimit(f'step budget {s.step_limit} exhausted in {fn.name}')
            bb = term(fr)
            if bb < 0:
                s.stack.pop()
                s.last_ret = (fn.ret, env)
                return fr[0] if fr[0] is not None else UNIT

    def call_value(s, f, args):
        while isinstance(f, Ref):
            f = f.get()
        if isinstance(f, Closure):
            cands = s.by_span.get(_span_key(f.span))
            if not cands:
                raise Unsupported(f'closure body not found for span {f.span}')
            fn = cands.get(getattr(f, 'dup', 0)) or cands[min(cands)]
            # first parameter is the closure itself, by value or by reference
            pty = fn.params[0][1]
            selfarg = Ref([f], 0) if pty.startswith('&') else f
            return s.call_fn(fn, [selfarg] + list(args), f.env)
        if isinstance(f, FnItem):
            return s.call_path(f.name, list(args), f.env)
        raise Unsupported(f'call of non-function value {f!r}')

    def const_value(s, fn):
        key = (fn.crate, fn.name)
        if key not in s.const_cache:
            s.const_cache[key] = s.call_fn(fn, [], None)
        return s.const_cache[key]

    def static_ref(s, fn):
        key = ('static', fn.crate, fn.name)
        if key not in s.const_cache:
            s.const_cache[key] = Ref([s.const_value(fn)], 0)
        return s.const_cache[key]

    # -- resolution of a callee path (text) to something callable
    def call_path(s, callee, args, env, crate=None):
        key = (callee, _env_key(env), crate)
        target = s.resolve_cache.get(key)
        if target is None:
            target = s.resolve(callee, env, crate)
            s.resolve_cache[key] = target
        kind = target[0]
        if kind == 'fn':
            return s.call_fn(target[1], args, target[2])
        if kind == 'native':
            s.natives_used.add(target[2])
            return target[1](s, target[3], args, env)
        if kind == 'fnvalue':
            f = args[0]
            tup = args[1]
            return s.call_value(f, list(tup.f) if isinstance(tup, Tup) else [tup])
        if kind == 'dynamic':
            return s.dispatch_dynamic(target[1], args, env, crate)
        raise Unsupported(f'call {callee}')

    def resolve(s, callee, env, crate):
        txt = subst_env(callee, env)
        # Fn-trait calls on closure / fn-item values
        if _FN_CALL_RE.match(txt):
            return ('fnvalue',)
        m = _TRAIT_CALL_RE.match(txt)
        if m:
            return ('dynamic', txt)
        name = strip_generics(txt)
        nat = s.find_native(name, txt)
        if nat:
            return nat
        # crate-local function by name
        f = s.find_fn(name, crate)
        if f is not None:
            return ('fn', f, callee_env(txt, env))
        # inherent method  Type::method  /  Type::<..>::method
        f = s.find_inherent(name)
        if f is not None:
            return ('fn', f, callee_env(txt, env))
        if name.startswith(('alloc::', 'std::')):
            s.alloc_calls.append(name)
        raise Unsupported(f'call to unknown function {callee}')

    def find_fn(s, name, crate=None):
        for cand in (name, 'parser::' + name, name.split('::', 1)[-1] if '::' in name else name):
            f = s.lookup(cand, crate)
            if f is not None and f.kind == 'fn':
                return f
        # path given with module prefix that the dump omits or vice versa
        short = name.split('::')[-1]
        cands = [f for n, fl in s.by_name.items() for f in fl
                 if f.kind == 'fn' and (n == short or n.endswith('::' + name)) and '<impl at' not in n]
        if len(cands) == 1:
            return cands[0]
        return None

    def find_inherent(s, name):
        parts = name.split('::')
        if len(parts) < 2:
            return None
        method = parts[-1]
        tyname = parts[-2]
        cands = []
        named = []
        for n, fl in s.by_name.items():
            if n.endswith('>::' + method) and '<impl at' in n:
                named.extend(f for f in fl if f.kind == 'fn')
                for f in fl:
                    if f.params:
                        pt = norm_type(f.params[0][1]).lstrip('&')
                        if parse_type(pt)[0] == tyname:
                            cands.append(f)
                    elif parse_type(norm_type(f.ret))[0] == tyname:
                        cands.append(f)
        if len(cands) == 1:
            return cands[0]
        if not cands and len(named) == 1:
            return named[0]       # an associated function without a receiver (Type::helper(..)): the only impl method of that name
        return None

    def find_native(s, name, txt):
        hit = s.native_cache.get(name)
        if hit is None:
            hit = False
            for pat, nat, label in s.natives:
                if pat.search(name):
                    hit = (nat, label)
                    break
            s.native_cache[name] = hit
        if hit:
            return ('native', hit[0], hit[1], txt)
        return None

    # -- trait-qualified calls <X as Trait<..>>::method
    def build_impl_index(s):
        idx = {}
        for (crate, name), f in s.fns.items():
            m = re.search(r'<impl at [^>]*>::(\w+)(#\d+)?$', name)
            if m and f.kind == 'fn':
                idx.setdefault(m.group(1), []).append(f)
        s.impl_index = idx

    def dispatch_dynamic(s, txt, args, env, crate):
        info = s.dyn_info.get(txt)
        if info is None:
            m = _TRAIT_CALL_RE.match(txt)
            selfty, trait, targs, method = m.group(1), m.group(2), m.group(3), m.group(4)
            st = norm_type(selfty)
            unresolved = st.startswith('impl ') or st in GENERIC_NAMES or st.startswith('<') or '{async' in st
            foreign = trait.startswith(('core::', 'std::', 'alloc::', 'heapless::', 'fmt::')) or '::fmt::' in trait
            info = (st, trait, trait.split('::')[-1], targs, method, unresolved, foreign)
            s.dyn_info[txt] = info
        st, trait, traitname, targs, method, unresolved, foreign = info
        if unresolved:
            rt = rt_type(deref(args[0])) if args else None
            if rt is not None:
                st = rt
        key = (txt, st, len(args))
        target = s.resolve_cache.get(key)
        if target is None:
            target = s.resolve_trait_call(txt, st, traitname, targs, method, args, env, unresolved, foreign)
            s.resolve_cache[key] = target
        if target[0] == 'fn':
            return s.call_fn(target[1], args, target[2])
        if target[0] == 'native':
            s.natives_used.add(target[2])
            return target[1](s, txt, args, env)
        raise Unsupported(f'trait call {txt}')

    def resolve_trait_call(s, txt, st, traitname, targs, method, args, env, unresolved, foreign=False):
        if s.impl_index is None:
            s.build_impl_index()
        # natives first for foreign traits / foreign self types
        name = strip_generics(txt)
        if foreign:
            nat = s.find_native(name, txt)
            if nat:
                return nat
            raise Unsupported(f'no model for foreign trait call {txt}')
        if traitname not in ('Interface', 'Response', 'Write', 'ErrorHandler', 'ErrorCommands', 'StandardCommands',
                             'ErrorQueue', 'TryInto', 'Adapter'):
            nat = s.find_native(name, txt)
            if nat:
                return nat
        cands = []
        for f in s.impl_index.get(method, []):
            if len(f.params) != len(args):
                continue
            if not f.params:
                continue
            pt = norm_type(f.params[0][1])
            # self by value, &self or &mut self
            b = {}
            ok = False
            for cand_self in (pt, pt[1:] if pt.startswith('&') else None):
                if cand_self is None:
                    continue
                b = {}
                try:
                    if unify(parse_type(cand_self), parse_type(st), b):
                        ok = True
                        break
                except Exception:
                    pass
            if not ok:
                continue
            if traitname == 'TryInto' and targs:
                want = norm_type(targs[1:-1])
                rt = parse_type(norm_type(f.ret))
                if not (rt[0] == 'Result' and type_str(rt[1][0]) == want):
                    continue
            if traitname in ('Write',) and 'response.rs' not in f.name and 'Write' not in f.name and False:
                continue
            cands.append((f, b))
        # prefer exact (non-generic) matches
        if len(cands) > 1:
            exact = [c for c in cands if not c[1]]
            if len(exact) >= 1:
                cands = exact
        if len(cands) > 1:
            # the trait's methods live in one impl block: pick by trait via the impl's other methods is not
            # visible in MIR; fall back on crate of definition matching the trait's usual home
            home = {'Write': 'response.rs', 'Response': 'response.rs', 'TryInto': 'value.rs', 'ErrorQueue': 'error_queue.rs',
                    'ErrorHandler': '', 'Interface': ''}.get(traitname)
            if home:
                c2 = [c for c in cands if home in c[0].name]
                if c2:
                    cands = c2
        if len(cands) == 1:
            f, b = cands[0]
            e = dict(b)
            e['Self'] = st
            return ('fn', f, Env(e))
        if len(cands) > 1:
            raise Unsupported(f'ambiguous impl for {txt}: {[c[0].name for c in cands]}')
        # default (provided) method of the trait
        dflt = s.lookup(traitname + '::' + method)
        if dflt is not None and dflt.kind == 'fn':
            return ('fn', dflt, Env({'Self': st}))
        nat = s.find_native(name, txt)
        if nat:
            return nat
        if name.startswith(('alloc::', 'std::')) or 'alloc::' in txt:
            s.alloc_calls.append(name)
        raise Unsupported(f'no impl found for {txt} (self type {st})')


class Frame(list):
    __slots__ = ('env',)

    def __init__(s, n):
        list.__init__(s, [None] * n)
        s.env = None


_FN_CALL_RE = re.compile(r'^<.* as Fn(Mut|Once)?<.*>>::call(_mut|_once)?$')
_TRAIT_CALL_RE = re.compile(r'^<(.*) as ([\w:]+?)(<.*>)?>::(\w+)(?:::<.*>)?$')


def _span_key(span):
    # "microscpi/src/parser.rs:80:5: 80:24" (optionally followed by " (#0)")
    return re.sub(r'\s*\(#\d+\)$', '', span.strip())


class Env(dict):
    """generic-parameter bindings of a frame; immutable after creation, with a cached hashable key"""
    __slots__ = ('key',)

    def __init__(s, d):
        dict.__init__(s, d)
        s.key = tuple(sorted(d.items()))


def _env_key(env):
    if not env:
        return None
    try:
        return env.key
    except AttributeError:
        return tuple(sorted(env.items()))


_SUBST_CACHE = {}


def subst_env(txt, env):
    if not env:
        return txt
    key = (txt, _env_key(env))
    r = _SUBST_CACHE.get(key)
    if r is None:
        names = [n for n in env if n in txt]
        r = txt
        if names:
            pat = re.compile(r'(?<![\w:])(' + '|'.join(sorted(names, key=len, reverse=True)) + r')(?![\w])')
            r = pat.sub(lambda m: env[m.group(1)], txt)
        _SUBST_CACHE[key] = r
    return r


def strip_generics(base):
    """remove ::<...> generic argument lists (but keep `::<impl [T]>` inherent-impl path segments)"""
    out = []
    i = 0
    n = len(base)
    while i < n:
        if base.startswith('::<', i):
            j = find_matching(base, i + 2)
            seg = base[i + 3:j]
            if seg.startswith('impl ') and not re.match(r'impl [\w:]*(Write|Future|Response)\b', seg):
                out.append(base[i:j + 1])
            i = j + 1
            continue
        out.append(base[i])
        i += 1
    return ''.join(out)


def callee_env(txt, env):
    return None


def rt_type(v):
    """static type name recovered from a runtime value (for `impl Trait` / generic receivers)"""
    if isinstance(v, HVec):
        if v.std:
            return 'String' if v.is_str else 'Vec<u8>'
        return 'String<N>' if v.is_str else 'Vec<u8, N>'
    if isinstance(v, Adt):
        return v.ty
    if isinstance(v, bool):
        return 'bool'
    if isinstance(v, Tup) and not v.f:
        return '()'
    if isinstance(v, NativeObj):
        return v.rt
    if isinstance(v, FloatVal):
        return v.ty
    if isinstance(v, Slice):
        return '&str' if v.is_str else None
    return None


class NativeObj:
    """harness object with natively implemented trait methods (adapter, pass-through writer)"""
    rt = 'NativeObj'


def int_arith(ex, base, x, y, signed, width, with_overflow=False):
    """integer / bool binary operation of MIR on concrete or symbolic operands (shared by BinaryOp rvalues and the operator-trait natives)"""
    op = base
    lo, hi = ((-(1 << (width - 1)), (1 << (width - 1)) - 1) if signed else (0, (1 << width) - 1)) if width else (0, 0)
    if not is_sym(x) and not is_sym(y):
        if isinstance(x, bool) or isinstance(y, bool):
            if base == 'BitAnd':
                return bool(x) and bool(y)
            if base == 'BitOr':
                return bool(x) or bool(y)
            if base == 'BitXor':
                return bool(x) != bool(y)
        if base == 'Add':
            r = x + y
        elif base == 'Sub':
            r = x - y
        elif base == 'Mul':
            r = x * y
        elif base == 'BitAnd':
            r = x & y
        elif base == 'BitOr':
            r = x | y
        elif base == 'BitXor':
            r = x ^ y
        elif base == 'Shl':
            r = x << (y % width)
        elif base == 'Shr':
            r = x >> (y % width)
        elif base == 'Div':
            if y == 0:
                raise Panic('attempt to divide by zero')
            r = abs(x) // abs(y) * (1 if (x >= 0) == (y >= 0) else -1)
        else:
            if y == 0:
                raise Panic('attempt to calculate the remainder with a divisor of zero')
            r = abs(x) % abs(y) * (1 if x >= 0 else -1)
        if with_overflow:
            return Tup([mask(r, signed, width), not (lo <= r <= hi)])
        return mask(r, signed, width) if width else r
    x, y = _coerce(x, y, width)
    if z3.is_bool(x):
        if base == 'BitAnd':
            return z3.And(x, y)
        if base == 'BitOr':
            return z3.Or(x, y)
        if base == 'BitXor':
            return z3.Xor(x, y)
        raise Unsupported(f'{op} on symbolic bool')
    if base == 'Add':
        r = x + y
        if with_overflow:
            ov = z3.Not(z3.BVAddNoOverflow(x, y, signed)) if not signed else z3.Or(z3.Not(z3.BVAddNoOverflow(x, y, True)), z3.Not(z3.BVAddNoUnderflow(x, y)))
            return Tup([r, ov])
        return r
    if base == 'Sub':
        r = x - y
        if with_overflow:
            ov = z3.ULT(x, y) if not signed else z3.Or(z3.Not(z3.BVSubNoOverflow(x, y)), z3.Not(z3.BVSubNoUnderflow(x, y, True)))
            return Tup([r, ov])
        return r
    if base == 'Mul':
        r = x * y
        if with_overflow:
            ov = z3.Not(z3.BVMulNoOverflow(x, y, signed)) if not signed else z3.Or(z3.Not(z3.BVMulNoOverflow(x, y, True)), z3.Not(z3.BVMulNoUnderflow(x, y)))
            return Tup([r, ov])
        return r
    if base == 'BitAnd':
        return x & y
    if base == 'BitOr':
        return x | y
    if base == 'BitXor':
        return x ^ y
    if base == 'Shl':
        return x << y
    if base == 'Shr':
        return (x >> y) if signed else z3.LShR(x, y)
    if base == 'Div':
        if ex.truth(y == 0):
            raise Panic('attempt to divide by zero')
        return (x / y) if signed else z3.UDiv(x, y)
    if base == 'Rem':
        if ex.truth(y == 0):
            raise Panic('attempt to calculate the remainder with a divisor of zero')
        return z3.SRem(x, y) if signed else z3.URem(x, y)
    raise Unsupported(op)


# ----------------------------------------------------------------------------- statement compiler
class Compiler:
    def __init__(s, ex, fn):
        s.ex, s.fn = ex, fn

    def compile(s):
        fn = s.fn
        code = {}
        for bb, stmts in fn.blocks.items():
            if bb in fn.is_cleanup:
                code[bb] = ([], s.c_unsupported_term('cleanup block entered'))
                continue
            try:
                cs = []
                for st in stmts[:-1]:
                    c = s.c_statement(st)
                    if c is not None:
                        cs.append(c)
                code[bb] = (cs, s.c_terminator(stmts[-1]))
            except Unsupported as e:
                code[bb] = ([], s.c_unsupported_term(f'{e} [in {fn.name} bb{bb}]'))
        n = max(code) + 1 if code else 1
        arr = [None] * n
        for k, v in code.items():
            arr[k] = v
        fn.code = arr
        return arr

    def c_unsupported_term(s, msg):
        def t(fr):
            raise Unsupported(msg)
        return t

    # ---- types of operands (for signedness / width)
    def place_type(s, p):
        p = p.strip()
        m = _LOCAL_RE.match(p)
        if m:
            return s.fn.local_ty.get(int(m.group(1)), '')
        if p.startswith('(') and find_matching(p, 0) == len(p) - 1:
            body = p[1:-1]
            k = _last_field_pos(body)
            if k is not None:
                return body[k:].split(': ', 1)[1]
            if body.startswith('*'):
                t = s.place_type(body[1:])
                return t[1:].replace('mut ', '', 1).strip() if t.startswith('&') else t
        m = re.fullmatch(r'(.*)\[(_\d+|\d+ of \d+)\]', p)
        if m:
            t = s.place_type(m.group(1))
            pt = parse_type(norm_type(t)) if t else None
            if pt and pt[0] in ('slice', 'array'):
                return type_str(pt[1][0])
        return ''

    def operand_type(s, o):
        o = o.strip()
        if o.startswith('no_retag '):
            o = o[9:]
        if o.startswith(('copy ', 'move ')):
            return s.place_type(o[5:])
        if o.startswith('const '):
            c = o[6:].strip()
            m = _CONST_INT_RE.match(c)
            if m:
                return m.group(2)
            if c in ('true', 'false'):
                return 'bool'
            if c.startswith("'"):
                return 'char'
        return ''

    # ---- places
    def c_place(s, p):
        p = p.strip()
        ex = s.ex
        pl = Place()
        pl.is_deref = False
        m = _LOCAL_RE.match(p)
        if m:
            i = int(m.group(1))
            pl.get = lambda fr: fr[i]

            def _set(fr, v):
                fr[i] = v
            pl.set = _set
            pl.ref = lambda fr: Ref(fr, i)
            return pl
        if p.startswith('(') and find_matching(p, 0) == len(p) - 1:
            body = p[1:-1].strip()
            if body.startswith('*'):
                inner = s.c_place(body[1:])
                iget = inner.get

                def _ref(fr):
                    v = iget(fr)
                    if isinstance(v, Ref):
                        return v
                    if v is None:
                        raise Unsupported(f'deref of uninitialised place {p} in {s.fn.name}')
                    return Ref([v], 0)   # fat reference / by-reference object: the value is the referent
                pl.ref = _ref
                pl.get = lambda fr: _ref(fr).get()
                pl.set = lambda fr, v: _ref(fr).set(v)
                pl.is_deref = True
                return pl
            k = _last_field_pos(body)
            if k is not None:
                base = s.c_place(body[:k])
                idx = int(_FIELD_RE.match(body[k:]).group(1))
                bget = base.get

                def _ref(fr):
                    bv = bget(fr)
                    while isinstance(bv, Ref):
                        bv = bv.get()
                    if isinstance(bv, (Adt, Tup)):
                        f = bv.f
                    elif isinstance(bv, Closure):
                        f = bv.f
                    elif isinstance(bv, Coroutine):
                        f = bv.up
                    elif isinstance(bv, CoVar):
                        d = bv.co.saved.setdefault(bv.v, {})
                        if idx not in d:
                            d[idx] = None
                        return Ref(d, idx)
                    else:
                        raise Unsupported(f'field {idx} of {bv!r} in {p} ({s.fn.name})')
                    while len(f) <= idx:
                        f.append(None)
                    return Ref(f, idx)
                def _fget(fr):
                    bv = bget(fr)
                    while type(bv) is Ref:
                        bv = bv.c[bv.k]
                    t = type(bv)
                    if t is Adt or t is Tup or t is Closure:
                        try:
                            return bv.f[idx]
                        except IndexError:
                            return None
                    return _ref(fr).get()
                pl.ref = _ref
                pl.get = _fget
                pl.set = lambda fr, v: _ref(fr).set(v)
                return pl
            k = find_top(body, ' as ')
            if k >= 0:
                base = s.c_place(body[:k])
                what = body[k + 4:].strip()
                mm = re.match(r'variant#(\d+)$', what)
                if mm:
                    vidx = int(mm.group(1))
                    bget = base.get

                    def _get(fr):
                        bv = bget(fr)
                        while isinstance(bv, Ref):
                            bv = bv.get()
                        if not isinstance(bv, Coroutine):
                            raise Unsupported(f'variant# downcast of {bv!r}')
                        return CoVar(bv, vidx)
                    pl.get = _get
                    pl.ref = lambda fr: Ref([_get(fr)], 0)

                    def _bad(fr, v):
                        raise Unsupported('assignment to a downcast')
                    pl.set = _bad
                    return pl
                return base      # enum downcast: same object
        m = re.fullmatch(r'(.*)\[_(\d+)\]', p)
        if m:
            base = s.c_place(m.group(1))
            ii = int(m.group(2))
            bget = base.get

            def _ref(fr):
                b = bget(fr)
                while isinstance(b, Ref):
                    b = b.get()
                i = fr[ii]
                if not isinstance(i, int):
                    i = ex.concretize(i, 0, 64)
                if isinstance(b, Slice):
                    if not 0 <= i < b.len:
                        raise Panic(f'index out of bounds: {i} of {b.len}')
                    return Ref(b.buf, b.start + i)
                if isinstance(b, list):
                    if not 0 <= i < len(b):
                        raise Panic(f'index out of bounds: {i} of {len(b)}')
                    return Ref(b, i)
                raise Unsupported(f'index into {b!r}')
            pl.ref = _ref
            pl.get = lambda fr: _ref(fr).get()
            pl.set = lambda fr, v: _ref(fr).set(v)
            return pl
        m = re.fullmatch(r'(.*)\[(\d+) of (\d+)\]', p)
        if m:
            base = s.c_place(m.group(1))
            i = int(m.group(2))
            bget = base.get

            def _ref(fr):
                b = bget(fr)
                while isinstance(b, Ref):
                    b = b.get()
                if isinstance(b, Slice):
                    return Ref(b.buf, b.start + i)
                if isinstance(b, list):
                    return Ref(b, i)
                raise Unsupported(f'const index into {b!r}')
            pl.ref = _ref
            pl.get = lambda fr: _ref(fr).get()
            pl.set = lambda fr, v: _ref(fr).set(v)
            return pl
        raise Unsupported(f'place {p}')

    # ---- constants
    def c_const(s, c):
        c = c.strip()
        ex = s.ex
        fn = s.fn
        m = _CONST_INT_RE.match(c)
        if m:
            v = int(m.group(1))
            return lambda fr: v
        if c == 'true':
            return lambda fr: True
        if c == 'false':
            return lambda fr: False
        if c == '()':
            return lambda fr: UNIT
        if c.startswith("'"):
            v = ord(_unescape(c[1:-1]))
            return lambda fr: v
        if c.startswith('"'):
            b = _unescape(c[1:-1]).encode('utf-8')
            return lambda fr: Slice(list(b), 0, len(b), True)
        if c.startswith('b"'):
            b = _unescape_bytes(c[2:-1])
            return lambda fr: Ref([list(b)], 0)
        if re.match(r'^-?[\d.]+(E[+-]?\d+)?f(32|64)$', c) or re.match(r'^-?(inf|NaN)_?f(32|64)$', c):
            raise Unsupported(f'float constant {c}')
        m = re.match(r'^ZeroSized: \{closure@([^}]*)\}', c)
        if m:
            span = m.group(1)
            return lambda fr: Closure(span, [], fr.env, _dup_of(fn.name))
        if c.startswith('ZeroSized: '):
            name = c[len('ZeroSized: '):]
            return lambda fr: FnItem(name, fr.env)
        m = re.fullmatch(r'\{(alloc\d+)(?:<imm>)?: (.*)\}', c)
        if m:
            an = m.group(1)
            sname = ex.allocs.get(fn.crate, {}).get(an)
            if sname is None:
                raise Unsupported(f'constant allocation {c} is not a static')
            sf = ex.fns.get((fn.crate, sname)) or ex.lookup(sname)
            if sf is None:
                raise Unsupported(f'static {sname} not in dump')
            return lambda fr: ex.static_ref(sf)
        mp = re.search(r'::promoted\[(\d+)\]$', c)
        if mp:
            # a promoted constant belongs to the function being compiled
            base, dup = fn.name, ''
            md = re.search(r'#(\d+)$', base)
            if md and not base.endswith('}'):
                base, dup = base[:md.start()], base[md.start():]
            f = ex.fns.get((fn.crate, f'{base}::promoted[{mp.group(1)}]{dup}')) or ex.fns.get((fn.crate, f'{base}::promoted[{mp.group(1)}]'))
            if f is not None:
                return lambda fr, f=f: copy_val(ex.const_value(f))
        # associated constants of the primitive integer types
        mi = re.fullmatch(r'(?:core::num::<impl )?([iu](?:8|16|32|64|128|size))>?::(BITS|MAX|MIN)', c)
        if mi:
            sg, bits = int_info(mi.group(1))
            v = {'BITS': bits, 'MAX': (1 << (bits - 1)) - 1 if sg else (1 << bits) - 1, 'MIN': -(1 << (bits - 1)) if sg else 0}[mi.group(2)]
            return lambda fr: v
        # named const / promoted / unit-like variant / fn item written as a path
        name = strip_generics(c)
        cands = [name]
        mm = re.match(r'^<(.*) as ([\w:]+)>::(.*)$', name)
        if mm:
            cands.append(mm.group(2).split('::')[-1] + '::' + mm.group(3))
        mm = re.match(r'^<(.*)>::(.*)$', name)
        for cand in list(cands):
            parts = cand.split('::')
            for k in range(1, len(parts)):
                cands.append('::'.join(parts[k:]))
        for cand in cands:
            f = ex.fns.get((fn.crate, cand)) or ex.lookup(cand)
            if f is not None and f.kind in ('const', 'static'):
                if f.kind == 'static':
                    return lambda fr, f=f: ex.static_ref(f)
                return lambda fr, f=f: copy_val(ex.const_value(f))
        # promoted of a generic fn:  <Self as Trait>::method::<..>::{closure#0}::promoted[0]
        mm = re.search(r'(\w+::\w+(?:::\{closure#\d+\})*::promoted\[\d+\])$', name)
        if mm:
            f = ex.lookup(mm.group(1))
            if f is not None:
                return lambda fr, f=f: copy_val(ex.const_value(f))
        # a const generic parameter of the enclosing function (`const N`): its value comes from the frame's bindings
        if re.fullmatch(r'[A-Z][A-Z0-9_]*', c):
            def _cparam(fr, c=c):
                v = (fr.env or {}).get(c)
                if v is not None and re.fullmatch(r'-?\d+', str(v).strip().split('_')[0]):
                    return int(str(v).strip().split('_')[0])
                return FnItem(c, fr.env)
            return _cparam
        # function item used as a value
        if re.match(r'^[\w:<>{}#\[\] ,&\']+$', c) and ('::' in c or c.isidentifier()):
            return lambda fr: FnItem(c, fr.env)
        raise Unsupported(f'const {c}')

    def c_operand(s, o):
        o = o.strip()
        if o.startswith('no_retag '):
            o = o[9:]
        if o.startswith('copy '):
            g = s.c_place(o[5:]).get
            ty = s.place_type(o[5:]).strip()
            if ty and (int_info(ty) is not None or ty.startswith(('&', '*', 'fn(')) or ty in ('()', 'f32', 'f64')):
                return g
            return lambda fr: copy_val(g(fr))
        if o.startswith('move '):
            return s.c_place(o[5:]).get
        if o.startswith('const '):
            return s.c_const(o[6:])
        if re.match(r'^[A-Za-z_<]', o):
            return lambda fr: FnItem(o, fr.env)     # bare function item
        raise Unsupported(f'operand {o}')

    # ---- rvalues
    def c_rvalue(s, dest, rv):
        rv = rv.strip()
        ex = s.ex
        fn = s.fn
        dest_ty = s.place_type(dest) if dest else ''
        # cast
        m = re.fullmatch(r'((?:copy|move|const) .*|[A-Za-z_<][^ ]*(?:::<.*>)?) as (.*?) \((\w+(?:\([\w, ()]*\))?)\)', rv)
        if m and find_top(rv, ' as ') >= 0 and not rv.startswith('<') or (m and rv.startswith('<') and find_top(rv, ' as ') >= 0 and '(PointerCoercion' in rv):
            op = s.c_operand(m.group(1))
            src_ty = s.operand_type(m.group(1))
            ty, kind = m.group(2), m.group(3)
            if kind.startswith('PointerCoercion(Unsize'):
                def _unsize(fr):
                    v = op(fr)
                    if isinstance(v, Ref):
                        a = v.get()
                        if isinstance(a, list):
                            return Slice(a, 0, len(a))
                    return v
                return _unsize
            if kind == 'IntToInt':
                di = int_info(ty)
                si = int_info(src_ty)
                if di is None:
                    raise Unsupported(f'cast to {ty}')
                dsigned, dw = di

                def _cast(fr):
                    v = op(fr)
                    if isinstance(v, bool):
                        v = int(v)
                    if isinstance(v, int):
                        return mask(v, dsigned, dw)
                    if z3.is_bool(v):
                        return z3.If(v, bvval(1, dw), bvval(0, dw))
                    if z3.is_bv(v):
                        sw = v.size()
                        if dw > sw:
                            return z3.SignExt(dw - sw, v) if (si and si[0]) else z3.ZeroExt(dw - sw, v)
                        if dw < sw:
                            return z3.Extract(dw - 1, 0, v)
                        return v
                    raise Unsupported(f'IntToInt cast of {v!r}')
                return _cast
            if kind == 'FloatToFloat':
                def _f2f(fr):
                    v = op(fr)
                    if not isinstance(v, FloatVal):
                        raise Unsupported(f'FloatToFloat cast of {v!r}')
                    if v.ty == ty:
                        return v
                    if isinstance(v.bits, int):
                        import struct
                        if v.ty == 'f64' and ty == 'f32':
                            x = struct.unpack('<d', struct.pack('<Q', v.bits))[0]
                            try:
                                nb = struct.unpack('<I', struct.pack('<f', x))[0]
                            except OverflowError:
                                nb = 0x7F800000 | (0x80000000 if x < 0 else 0)
                        else:
                            x = struct.unpack('<f', struct.pack('<I', v.bits))[0]
                            nb = struct.unpack('<Q', struct.pack('<d', x))[0]
                        r = FloatVal(nb, ty, v.src)
                    else:
                        r = FloatVal(None, ty, v.src)
                    r.ops = list(getattr(v, 'ops', None) or []) + [f'{v.ty}->{ty} cast']
                    r.parsed_as = getattr(v, 'parsed_as', v.ty)
                    return r
                return _f2f
            if kind in ('PtrToPtr', 'Transmute', 'PointerCoercion(MutToConstPointer, Implicit)', 'PointerCoercion(ReifyFnPointer, Implicit)',
                        'PointerCoercion(ReifyFnPointer(Safe), Implicit)'):
                return op
            if kind.startswith('PointerCoercion'):
                return op
            raise Unsupported(f'cast kind {kind}')
        if rv.startswith(('copy ', 'move ', 'const ', 'no_retag ')):
            return s.c_operand(rv)
        m = re.fullmatch(r'&(?:mut |raw const \(fake\) |raw const |raw mut |fake shallow |fake |\(fake\) )?(.*)', rv)
        if m and not rv.startswith('&&'):
            pl = s.c_place(m.group(1))
            pref, is_deref = pl.ref, pl.is_deref

            def _ref(fr):
                r = pref(fr)
                if is_deref:
                    v = r.get()
                    # reborrow of a fat reference / harness object keeps the referent itself
                    if isinstance(v, (Slice, NativeObj, Opaque)):
                        return v
                return r
            return _ref
        m = re.fullmatch(r'discriminant\((.*)\)', rv)
        if m:
            g = s.c_place(m.group(1)).get
            enums = ex.enums

            def _discr(fr):
                v = g(fr)
                while isinstance(v, Ref):
                    v = v.get()
                if isinstance(v, Coroutine):
                    return v.state
                if isinstance(v, Adt):
                    names = enums.get(v.ty)
                    if names is None:
                        raise Unsupported(f'discriminant of {v.ty}')
                    return names.index(v.variant)
                raise Unsupported(f'discriminant of {v!r}')
            return _discr
        m = re.fullmatch(r'(Not|Neg)\((.*)\)', rv)
        if m:
            op = s.c_operand(m.group(2))
            ii = int_info(s.operand_type(m.group(2)) or dest_ty)
            if m.group(1) == 'Not':
                def _not(fr):
                    v = op(fr)
                    if isinstance(v, bool):
                        return not v
                    if isinstance(v, int):
                        if ii is None:
                            raise Unsupported('Not of untyped int')
                        return mask(~v, ii[0], ii[1])
                    if z3.is_bool(v):
                        return z3.Not(v)
                    return ~v
                return _not

            def _neg(fr):
                v = op(fr)
                if isinstance(v, FloatVal):
                    if v.bits is None:
                        raise Unsupported('negation of a float known only by its text')
                    w = 32 if v.ty == 'f32' else 64
                    r = FloatVal(v.bits ^ (1 << (w - 1)), v.ty, v.src)
                    r.ops = list(v.ops or []) + ['neg']
                    return r
                if isinstance(v, int):
                    return mask(-v, ii[0], ii[1]) if ii else -v
                return -v
            return _neg
        m = re.fullmatch(r'PtrMetadata\((.*)\)', rv)
        if m:
            op = s.c_operand(m.group(1))

            def _meta(fr):
                v = op(fr)
                while isinstance(v, Ref):
                    v = v.get()
                if isinstance(v, Slice):
                    return v.len
                if isinstance(v, list):
                    return len(v)
                raise Unsupported(f'PtrMetadata of {v!r}')
            return _meta
        m = re.fullmatch(r'Len\((.*)\)', rv)
        if m:
            g = s.c_place(m.group(1)).get

            def _len(fr):
                v = deref(g(fr))
                if isinstance(v, Slice):
                    return v.len
                if isinstance(v, list):
                    return len(v)
                raise Unsupported(f'Len of {v!r}')
            return _len
        m = re.fullmatch(r'CopyForDeref\((.*)\)', rv)
        if m:
            return s.c_place(m.group(1)).get
        m = re.fullmatch(r'(\w+)\((.*)\)', rv)
        if m and m.group(1) in _BINOPS:
            parts = split_top(m.group(2))
            if len(parts) == 2:
                return s.c_binop(m.group(1), parts[0], parts[1], dest_ty)
        # tuple aggregate
        if rv.startswith('(') and find_matching(rv, 0) == len(rv) - 1:
            ops = [s.c_operand(x) for x in split_top(rv[1:-1])]
            if not ops:
                return lambda fr: UNIT
            return lambda fr: Tup([o(fr) for o in ops])
        if rv.startswith('[') and rv.endswith(']') and find_matching(rv, 0) == len(rv) - 1:
            inner = rv[1:-1]
            parts = split_top(inner, ';')
            if len(parts) == 2:
                op = s.c_operand(parts[0])
                nn = parts[1].strip()

                def _repeat(fr):
                    t = subst_env(nn, fr.env)
                    t = re.sub(r'^const ', '', t)
                    t = re.sub(r'_usize$', '', t)
                    if not t.isdigit():
                        raise Unsupported(f'array length {nn} not bound (env {fr.env})')
                    return [copy_val(op(fr)) for _ in range(int(t))]
                return _repeat
            ops = [s.c_operand(x) for x in split_top(inner)]
            return lambda fr: [o(fr) for o in ops]
        m = re.fullmatch(r'\{coroutine@([^}]*)\}(?: \{(.*)\})?', rv)
        if m:
            ops = []
            if m.group(2):
                for f in split_top(m.group(2).strip()):
                    ops.append(s.c_operand(f.split(': ', 1)[1]))
            if re.search(r'#\d+$', fn.name) and not fn.name.endswith('}'):
                b0, d0 = fn.name.rsplit('#', 1)
                body = ex.fns.get((fn.crate, b0 + '::{closure#0}#' + d0))
            else:
                body = ex.fns.get((fn.crate, fn.name + '::{closure#0}'))
            if body is None:
                raise Unsupported(f'coroutine body of {fn.name} not in dump')
            return lambda fr: Coroutine(body, [o(fr) for o in ops], fr.env)
        m = re.fullmatch(r'\{closure@([^}]*)\}(?: \{(.*)\})?', rv)
        if m:
            ops = []
            if m.group(2):
                for f in split_top(m.group(2).strip()):
                    ops.append(s.c_operand(f.split(': ', 1)[1]))
            span = m.group(1)
            return lambda fr: Closure(span, [o(fr) for o in ops], fr.env, _dup_of(s.fn.name))
        if rv == 'RangeFull' or rv.endswith('::RangeFull'):
            return lambda fr: Adt('RangeFull', None, [])
        # struct aggregate  Path { a: x, b: y }
        k = find_top(rv, ' { ')
        if k > 0 and rv.endswith('}'):
            head = rv[:k]
            inner = rv[k + 3:-1].strip()
            tyname = strip_generics(head).split('::')
            ops = [s.c_operand(f.split(': ', 1)[1]) for f in split_top(inner)] if inner else []
            # enum struct-variant?  Path::Variant { .. }
            if len(tyname) >= 2 and tyname[-1] in ex.variant_owner and tyname[-2] in ex.variant_owner[tyname[-1]]:
                ty, var = tyname[-2], tyname[-1]
                return lambda fr: Adt(ty, var, [o(fr) for o in ops])
            ty = tyname[-1]
            return lambda fr: Adt(ty, None, [o(fr) for o in ops])
        # enum variant ctor  Path::Variant(args) or unit variant Path::Variant ; or tuple struct Path(args)
        head = rv
        argstr = None
        if rv.endswith(')'):
            # find the '(' matching the last ')'
            depth = 0
            i = len(rv) - 1
            while i >= 0:
                ch = rv[i]
                if ch == ')':
                    depth += 1
                elif ch == '(':
                    depth -= 1
                    if depth == 0:
                        break
                i -= 1
            if i > 0:
                head, argstr = rv[:i], rv[i + 1:-1]
        name = strip_generics(head).split('::')
        ops = [s.c_operand(x) for x in split_top(argstr)] if argstr else []
        var = name[-1]
        if var in ex.variant_owner:
            owners = ex.variant_owner[var]
            ty = None
            if len(name) >= 2 and name[-2] in owners:
                ty = name[-2]
            elif len(owners) == 1:
                ty = owners[0]
            else:
                # bare variant name: use the destination type
                dt = parse_type(norm_type(dest_ty))[0] if dest_ty else None
                if dt in owners:
                    ty = dt
            if ty is not None:
                return lambda fr: Adt(ty, var, [o(fr) for o in ops])
        if argstr is not None and re.match(r'^[\w:]+$', strip_generics(head)):
            ty = name[-1]
            return lambda fr: Adt(ty, None, [o(fr) for o in ops])
        raise Unsupported(f'rvalue {rv}')

    def c_binop(s, op, a, b, dest_ty):
        ex = s.ex
        oa, ob = s.c_operand(a), s.c_operand(b)
        ty = s.operand_type(a) or s.operand_type(b)
        ii = int_info(ty)
        signed = bool(ii and ii[0])
        width = ii[1] if ii else None
        if op in ('Eq', 'Ne', 'Lt', 'Le', 'Gt', 'Ge'):
            def _cmp(fr):
                x, y = oa(fr), ob(fr)
                xs, ys = is_sym(x), is_sym(y)
                if not xs and not ys:
                    if op == 'Eq':
                        return x == y
                    if op == 'Ne':
                        return x != y
                    if op == 'Lt':
                        return x < y
                    if op == 'Le':
                        return x <= y
                    if op == 'Gt':
                        return x > y
                    return x >= y
                x, y = _coerce(x, y)
                if op == 'Eq':
                    return x == y
                if op == 'Ne':
                    return x != y
                if z3.is_bool(x):
                    raise Unsupported('ordering on symbolic bool')
                if signed:
                    return {'Lt': x < y, 'Le': x <= y, 'Gt': x > y, 'Ge': x >= y}[op]
                return {'Lt': z3.ULT, 'Le': z3.ULE, 'Gt': z3.UGT, 'Ge': z3.UGE}[op](x, y)
            return _cmp
        base = op.replace('WithOverflow', '').replace('Unchecked', '')
        with_overflow = op.endswith('WithOverflow')
        if base in ('Add', 'Sub', 'Mul', 'BitAnd', 'BitOr', 'BitXor', 'Shl', 'Shr', 'Div', 'Rem'):
            if width is None and base not in ('BitAnd', 'BitOr', 'BitXor'):
                raise Unsupported(f'arithmetic on untyped operands: {op}({a}, {b})')
            lo, hi = ((-(1 << (width - 1)), (1 << (width - 1)) - 1) if signed else (0, (1 << width) - 1)) if width else (0, 0)

            def _arith(fr):
                return int_arith(ex, base, oa(fr), ob(fr), signed, width, with_overflow)
            return _arith
        raise Unsupported(f'binop {op}')

    # ---- statements
    def c_statement(s, st):
        if st.startswith(_SKIP_PREFIXES):
            return None
        m = re.fullmatch(r'discriminant\((.*)\) = (\d+);', st)
        if m:
            g = s.c_place(m.group(1)).get
            k = int(m.group(2))
            enums = s.ex.enums

            def _setd(fr):
                v = g(fr)
                while isinstance(v, Ref):
                    v = v.get()
                if isinstance(v, Coroutine):
                    v.state = k
                    return
                if isinstance(v, Adt) and v.ty in enums:
                    v.variant = enums[v.ty][k]
                    return
                raise Unsupported(f'SetDiscriminant on {v!r}')
            return _setd
        if st.startswith('assume('):
            return None
        if not st.endswith(';'):
            raise Unsupported(f'statement {st}')
        body = st[:-1]
        k = find_top(body, ' = ')
        if k < 0:
            raise Unsupported(f'statement {st}')
        place, rv = body[:k], body[k + 3:]
        pset = s.c_place(place).set
        rvf = s.c_rvalue(place, rv)
        m = _LOCAL_RE.match(place.strip())
        if m:
            i = int(m.group(1))

            def _assign_local(fr):
                fr[i] = rvf(fr)
            return _assign_local

        def _assign(fr):
            pset(fr, rvf(fr))
        return _assign

    # ---- terminators
    def c_terminator(s, term):
        ex = s.ex
        fn = s.fn
        if term == 'return;':
            return lambda fr: -1
        if term == 'unreachable;':
            def _unr(fr):
                raise Panic('unreachable reached in ' + fn.name)
            return _unr
        if term.startswith('resume') or term.startswith('coroutine_drop') or term.startswith('terminate'):
            return s.c_unsupported_term('unwinding terminator reached: ' + term)
        m = re.fullmatch(r'goto -> bb(\d+);', term)
        if m:
            t = int(m.group(1))
            return lambda fr: t
        m = re.fullmatch(r'switchInt\((.*)\) -> \[(.*)\];', term)
        if m:
            op = s.c_operand(m.group(1))
            table = {}
            otherwise = None
            order = []
            for t in split_top(m.group(2)):
                val, tgt = t.split(': ')
                tgt = int(tgt[2:])
                if val == 'otherwise':
                    otherwise = tgt
                else:
                    table[int(val)] = tgt
                    order.append((int(val), tgt))

            def _switch(fr):
                v = op(fr)
                if v is True:
                    v = 1
                elif v is False:
                    v = 0
                if isinstance(v, int):
                    r = table.get(v, otherwise)
                    if r is None:
                        raise Panic('switchInt without matching arm')
                    return r
                if z3.is_bool(v):
                    tv = 1 if ex.truth(v) else 0
                    r = table.get(tv, otherwise)
                    if r is None:
                        raise Panic('switchInt without matching arm')
                    return r
                if z3.is_bv(v):
                    v2 = z3.simplify(v)
                    if z3.is_bv_value(v2):
                        return table.get(v2.as_long(), otherwise)
                    opts = []
                    conds = []
                    for val, tgt in order:
                        opts.append((tgt, v2 == val))
                        conds.append(v2 != val)
                    if otherwise is not None:
                        opts.append((otherwise, z3.And(*conds) if conds else True))
                    # merge options with the same target
                    merged = {}
                    for tgt, c in opts:
                        merged[tgt] = c if tgt not in merged else z3.Or(merged[tgt], c)
                    return ex.decide(list(merged.items()))
                raise Unsupported(f'switchInt on {v!r}')
            return _switch
        m = re.fullmatch(r'assert\((!?)(.*?), "(.*)\) -> \[success: bb(\d+), unwind.*\];', term)
        if m:
            neg = bool(m.group(1))
            op = s.c_operand(m.group(2))
            msg = m.group(3)[:70]
            t = int(m.group(4))

            def _assert(fr):
                tv = ex.truth(op(fr))
                if neg:
                    tv = not tv
                if not tv:
                    raise Panic(f'assertion failed: {msg} in {fn.name}')
                return t
            return _assert
        m = re.fullmatch(r'drop\((.*)\) -> \[return: bb(\d+), unwind.*\];', term)
        if m:
            t = int(m.group(2))
            return lambda fr: t
        m = re.fullmatch(r'(.*) -> (?:\[return: bb(\d+), unwind.*\]|unwind.*);', term)
        if m:
            full, ret = m.group(1), m.group(2)
            # DEST = CALLEE(ARGS)   or   CALLEE(ARGS)
            close = len(full) - 1
            if full[close] != ')':
                raise Unsupported(f'terminator {term}')
            depth = 0
            i = close
            while i >= 0:
                c = full[i]
                if c == ')':
                    depth += 1
                elif c == '(':
                    depth -= 1
                    if depth == 0:
                        break
                i -= 1
            head, argstr = full[:i], full[i + 1:close]
            k = find_top(head, ' = ')
            dest = None
            if k >= 0:
                dest, callee = head[:k], head[k + 3:]
            else:
                callee = head
            callee = callee.strip()
            argops = [s.c_operand(a) for a in split_top(argstr)]
            dset = s.c_place(dest).set if dest else None
            rt = int(ret) if ret is not None else None
            crate = fn.crate
            # callee may be a local holding a fn value:  move _5(args)
            if callee.startswith(('move ', 'copy ')):
                cg = s.c_operand(callee)

                def _callv(fr):
                    r = ex.call_value(cg(fr), [a(fr) for a in argops])
                    if dset:
                        dset(fr, r)
                    if rt is None:
                        raise Panic('diverging call returned')
                    return rt
                return _callv

            # destination declared with an opaque type (`&mut impl ErrorQueue`): learn the concrete type from the callee's signature,
            # so that later calls without a receiver (`<impl ErrorQueue as Default>::default()`) can be resolved
            opaque = None
            mdest = re.match(r'^_(\d+)$', dest.strip()) if dest else None
            if mdest:
                dty = norm_type(fn.local_ty.get(int(mdest.group(1)), '') or '')
                mo = re.search(r'impl [A-Za-z_]\w*', dty)
                if mo and dty.count('impl ') == 1:
                    opaque = (mo.group(0), re.compile('^' + re.escape(dty).replace(re.escape(mo.group(0)), '(.+)').replace('\\ ', ' ?') + '$'))

            def _call(fr):
                if opaque:
                    ex.last_ret = None
                r = ex.call_path(callee, [a(fr) for a in argops], fr.env, crate)
                if opaque and ex.last_ret is not None and not (fr.env and opaque[0] in fr.env):
                    rty, renv = ex.last_ret
                    mm = opaque[1].match(norm_type(subst_env(rty, renv)))
                    if mm and 'impl ' not in mm.group(1):
                        fr.env = Env(dict(fr.env or {}, **{opaque[0]: mm.group(1)}))
                if dset:
                    dset(fr, r)
                if rt is None:
                    raise Panic('diverging call returned: ' + callee)
                return rt
            return _call
        raise Unsupported(f'terminator {term}')


def _last_field_pos(body):
    """position of the last top-level '.N: T' field projection in a parenthesised place body"""
    depth = 0
    i = 0
    n = len(body)
    pos = None
    while i < n:
        c = body[i]
        if c == '-' and body.startswith('->', i):
            i += 2
            continue
        if c in '([{<':
            depth += 1
        elif c in ')]}>':
            depth -= 1
        elif depth == 0 and c == '.' and _FIELD_RE.match(body, i):
            pos = i
            break
        i += 1
    return pos


def _coerce(x, y, width=None):
    xs, ys = is_sym(x), is_sym(y)
    if xs and ys:
        if z3.is_bv(x) and z3.is_bv(y) and x.size() != y.size():
            raise Unsupported(f'width mismatch {x.size()} vs {y.size()}')
        return x, y
    like = x if xs else y
    other = y if xs else x
    if z3.is_bool(like):
        o = z3.BoolVal(bool(other))
    else:
        o = bvval(int(other), like.size())
    return (x, o) if xs else (o, y)


_ESC = {'n': '\n', 't': '\t', 'r': '\r', '0': '\0', '\\': '\\', "'": "'", '"': '"'}


def _unescape(t):
    out = []
    i = 0
    while i < len(t):
        c = t[i]
        if c == '\\':
            d = t[i + 1]
            if d == 'x':
                out.append(chr(int(t[i + 2:i + 4], 16)))
                i += 4
                continue
            if d == 'u':
                j = t.index('}', i)
                out.append(chr(int(t[i + 3:j], 16)))
                i = j + 1
                continue
            out.append(_ESC.get(d, d))
            i += 2
            continue
        out.append(c)
        i += 1
    return ''.join(out)


def _unescape_bytes(t):
    out = bytearray()
    i = 0
    while i < len(t):
        c = t[i]
        if c == '\\':
            d = t[i + 1]
            if d == 'x':
                out.append(int(t[i + 2:i + 4], 16))
                i += 4
                continue
            out.append(ord(_ESC.get(d, d)))
            i += 2
            continue
        out.extend(c.encode('utf-8'))
        i += 1
    return bytes(out)
