"""Parallel depth-first exploration of the decision tree of a symbolic execution.

A *task* is a decision prefix; a worker explores the subtree below it up to a path budget and hands
the unexplored prefixes back.  Checks are objects created in every worker from (module, class, params):

    class SomeCheck:
        def __init__(self, world, params): ...
        def body(self):            # symbolic execution of one path (uses world.ex.decide / truth for forks)
        def on_leaf(self, outcome) # -> JSON-able record (may query the solver under the leaf's path condition)
"""
import importlib
import multiprocessing as mp
import os
import signal
import time
import traceback

from .engine import Unsupported, Infeasible

_W = {}


def _init(paths, repo_src):
    signal.signal(signal.SIGINT, signal.SIG_IGN)
    from .world import World
    _W['world'] = None if paths.get('no_world') else World(paths['mir_micro'], paths['mir_vdev'], repo_src)
    _W['checks'] = {}
    _W['paths'] = paths


def _get_check(spec):
    key = repr(spec)
    c = _W['checks'].get(key)
    if c is None:
        mod, cls, params = spec
        m = importlib.import_module(mod)
        c = getattr(m, cls)(_W['world'], params)
        if hasattr(c, 'bind'):
            c.bind(_W['paths'])
        _W['checks'][key] = c
    return c


def _task(args):
    spec, prefix, budget, deadline = args
    world = _W['world']
    ex = world.ex if world is not None else None
    try:
        ex = getattr(_get_check(spec), 'ex', None) or ex     # checks over another crate bring their own engine
    except Exception:
        if ex is None:
            return {'records': [], 'left': [prefix], 'paths': 0, 'transitions': 0, 'queries': 0, 'solver_time': 0.0, 'err': 'ERROR: ' + traceback.format_exc()[-2000:],
                    'time': 0.0, 'called': [], 'natives': []}
    t0 = time.time()
    q0, st0 = ex.queries, ex.solver_time
    records = []
    stack = [prefix]
    n = 0
    transitions = 0
    err = None
    try:
        check = _get_check(spec)
        while stack and n < budget and time.time() < deadline:
            p = stack.pop()
            try:
                out, pend = ex.run_path(p, check.body)
                if out[0] != 'infeasible':
                    rec = check.on_leaf(out)
                    if rec is not None:
                        rec.setdefault('decisions', len(ex.decisions))
                        records.append(rec)
                    n += 1
                    transitions += len(ex.decisions)
                stack.extend(pend)
            finally:
                ex.end_path()
    except Unsupported as e:
        err = f'UNSUPPORTED: {e} [MIR stack: {ex.stack[-5:]}]'
    except Exception:
        err = 'ERROR: ' + traceback.format_exc()[-3000:]
    return {'records': records, 'left': stack, 'paths': n, 'transitions': transitions, 'queries': ex.queries - q0, 'solver_time': ex.solver_time - st0,
            'err': err, 'time': time.time() - t0, 'called': sorted(ex.called), 'natives': sorted(ex.natives_used)}


class Pool:
    def __init__(s, paths, repo_src, workers=None):
        s.workers = workers or int(os.environ.get('VERIF_WORKERS', '0')) or min(16, os.cpu_count() or 4)
        ctx = mp.get_context('fork')
        s.pool = ctx.Pool(s.workers, initializer=_init, initargs=(paths, repo_src))

    def close(s):
        s.pool.terminate()
        s.pool.join()

    def explore(s, spec, deadline, first_budget=8, budget=150, on_record=None, max_paths=None, max_violating=200):
        """explore the whole decision tree of check `spec`; returns stats dict.
        stats['complete'] is True iff every path was explored before the deadline."""
        stats = {'paths': 0, 'transitions': 0, 'queries': 0, 'solver_time': 0.0, 'complete': False, 'errors': [], 'worker_time': 0.0,
                 'called': set(), 'natives': set(), 'violating': 0, 'stopped_early': False}
        queue = [[]]
        inflight = []
        records = []
        t0 = time.time()
        while queue or inflight:
            now = time.time()
            if now >= deadline or stats['errors'] or (max_paths and stats['paths'] >= max_paths):
                break
            if stats['violating'] >= max_violating:
                stats['stopped_early'] = True      # enough counterexamples: the verdict is already a violation
                break
            while queue and len(inflight) < s.workers * 3:
                p = queue.pop()
                b = first_budget if (len(queue) + len(inflight)) < s.workers * 2 else budget
                inflight.append(s.pool.apply_async(_task, ((spec, p, b, deadline),)))
            still = []
            progressed = False
            for r in inflight:
                if r.ready():
                    progressed = True
                    res = r.get()
                    stats['paths'] += res['paths']
                    stats['transitions'] += res['transitions']
                    stats['queries'] += res['queries']
                    stats['solver_time'] += res.get('solver_time', 0.0)
                    stats['worker_time'] += res['time']
                    stats['called'].update(res['called'])
                    stats['natives'].update(res['natives'])
                    if res['err']:
                        stats['errors'].append(res['err'])
                    queue.extend(res['left'])
                    stats['violating'] += sum(1 for rec in res['records'] if rec.get('violations'))
                    if on_record:
                        for rec in res['records']:
                            on_record(rec)
                    else:
                        records.extend(res['records'])
                else:
                    still.append(r)
            inflight = still
            if not progressed:
                time.sleep(0.005)
        if not queue and not inflight and not stats['errors']:
            stats['complete'] = True
        else:
            # drain / abandon
            for r in inflight:
                try:
                    res = r.get(timeout=max(1.0, min(30.0, deadline - time.time() + 5)))
                    stats['paths'] += res['paths']
                    stats['transitions'] += res['transitions']
                    stats['queries'] += res['queries']
                    if res['err']:
                        stats['errors'].append(res['err'])
                    if on_record:
                        for rec in res['records']:
                            on_record(rec)
                    else:
                        records.extend(res['records'])
                    if res['left']:
                        queue.extend(res['left'])
                except mp.TimeoutError:
                    pass
            stats['complete'] = (not queue and not stats['errors'] and all(r.ready() for r in inflight)) or stats['stopped_early']
        stats['wall'] = time.time() - t0
        stats['records'] = records
        stats['called'] = sorted(stats['called'])
        stats['natives'] = sorted(stats['natives'])
        return stats
