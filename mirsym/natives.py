"""Native models of the `core` / `heapless` functions that microscpi calls.

This file is the trusted base of every mirsym claim: nothing of microscpi is
modelled here, only library code outside the repository.  Each model is
registered with a label; the labels actually used in a run are listed in the
evidence file.
"""
import re
import z3

from .engine import (Adt, Tup, Slice, Ref, Closure, FnItem, Iter, HVec, Deque, Coroutine, NativeFuture, FmtArg,
                     FmtArguments, Token, FloatVal, Opaque, NativeObj, UNIT, Panic, Unsupported, Some, NONE, Ok, Err,
                     Ready, PENDING, deref, copy_val, is_sym, mask, bvval, subst_env, strip_generics, Env)
from .mir import split_top, find_matching, norm_type, parse_type, type_str, int_info, unify

NATIVES = []


def native(pattern, label=None):
    def deco(f):
        NATIVES.append((re.compile(pattern), f, label or f.__name__))
        return f
    return deco


def install(ex):
    from . import iters
    if not getattr(install, 'done', False):
        iters.install()
        install.done = True
    ex.natives = list(NATIVES)
    ex.native_cache = {}


def as_slice(v):
    v = deref(v)
    if isinstance(v, Slice):
        return v
    if isinstance(v, list):
        return Slice(v, 0, len(v))
    if isinstance(v, HVec):
        return Slice(v.items, 0, len(v.items), v.is_str)
    raise Unsupported(f'expected a slice, got {v!r}')


# ----------------------------------------------------------------------------- slices / iterators
@native(r'^(core::)?slice::<impl \[.*\]>::iter$', 'slice::iter')
def n_iter(ex, callee, a, env):
    return Iter(as_slice(a[0]))


@native(r'as IntoIterator>::into_iter$', 'IntoIterator::into_iter')
def n_into_iter(ex, callee, a, env):
    v = deref(a[0])
    if isinstance(v, Iter) or type(v).__name__ == 'CharsIter':
        return v
    return Iter(as_slice(v))


@native(r'as Iterator>::enumerate$', 'Iterator::enumerate')
def n_enumerate(ex, callee, a, env):
    it = deref(a[0])
    it.enum = True
    return it


@native(r'as Iterator>::next$', 'Iterator::next')
def n_next(ex, callee, a, env):
    it = deref(a[0])
    if type(it).__name__ == 'CharsIter':
        return n_chars_next(ex, callee, a, env)
    if it.pos >= it.sl.len:
        return NONE()
    r = Ref(it.sl.buf, it.sl.start + it.pos)
    if it.by_value:
        r = r.get()
    i = it.pos
    it.pos += 1
    return Some(Tup([i, r])) if it.enum else Some(r)


@native(r'as Iterator>::position$', 'Iterator::position')
def n_position(ex, callee, a, env):
    it, f = deref(a[0]), a[1]
    i = 0
    while it.pos < it.sl.len:
        r = Ref(it.sl.buf, it.sl.start + it.pos)
        if it.by_value:
            r = r.get()
        it.pos += 1
        res = ex.call_value(f, [r])
        if ex.truth(res):
            return Some(i)
        i += 1
    return NONE()


@native(r'^(core::)?slice::<impl \[.*\]>::first(_mut)?$', 'slice::first')
def n_first(ex, callee, a, env):
    sl = as_slice(a[0])
    return Some(Ref(sl.buf, sl.start)) if sl.len > 0 else NONE()


@native(r'^(core::)?slice::<impl \[.*\]>::last(_mut)?$', 'slice::last')
def n_last(ex, callee, a, env):
    sl = as_slice(a[0])
    return Some(Ref(sl.buf, sl.start + sl.len - 1)) if sl.len > 0 else NONE()


@native(r'^(core::)?(slice::<impl \[.*\]>|str::<impl str>|str)::is_empty$', 'is_empty')
def n_is_empty(ex, callee, a, env):
    return as_slice(a[0]).len == 0


@native(r'^(core::)?(slice::<impl \[.*\]>|str::<impl str>|str)::len$', 'len')
def n_len(ex, callee, a, env):
    return as_slice(a[0]).len


@native(r'^(core::)?str::<impl str>::as_bytes$|^str::as_bytes$', 'str::as_bytes')
def n_as_bytes(ex, callee, a, env):
    sl = as_slice(a[0])
    return Slice(sl.buf, sl.start, sl.len, False)


@native(r'^(core::)?slice::<impl \[.*\]>::get$', 'slice::get')
def n_slice_get(ex, callee, a, env):
    sl, i = as_slice(a[0]), a[1]
    if not isinstance(i, int):
        i = ex.concretize(i, 0, 64)
    return Some(Ref(sl.buf, sl.start + i)) if 0 <= i < sl.len else NONE()


@native(r'^(core::)?slice::<impl \[.*\]>::split_at$', 'slice::split_at')
def n_split_at(ex, callee, a, env):
    sl, i = as_slice(a[0]), a[1]
    if not isinstance(i, int):
        i = ex.concretize(i, 0, 64)
    if i > sl.len:
        raise Panic('split_at: mid > len')
    return Tup([Slice(sl.buf, sl.start, i, sl.is_str), Slice(sl.buf, sl.start + i, sl.len - i, sl.is_str)])


@native(r'^(core::)?slice::<impl \[.*\]>::starts_with$', 'slice::starts_with')
def n_starts_with(ex, callee, a, env):
    x, y = as_slice(a[0]), as_slice(a[1])
    if y.len > x.len:
        return False
    return _all_eq(x.items()[:y.len], y.items())


def _range_bounds(ex, callee, r, ln):
    """(start, end) of a Range* value applied to a sequence of length ln; raises Panic like core does"""
    def conc(v):
        return v if isinstance(v, int) else ex.concretize(v, 0, 1 << 16 if ln > 255 else 255)
    if 'RangeFull' in callee or (isinstance(r, Adt) and r.ty == 'RangeFull'):
        return 0, ln
    if 'RangeFrom' in callee:
        st = conc(r.f[0])
        if st > ln:
            raise Panic(f'range start index {st} out of range for slice of length {ln}')
        return st, ln
    if 'RangeToInclusive' in callee:
        en = conc(r.f[0])
        if en >= ln:
            raise Panic(f'range end index {en + 1} out of range for slice of length {ln}')
        return 0, en + 1
    if 'RangeTo' in callee:
        en = conc(r.f[0])
        if en > ln:
            raise Panic(f'range end index {en} out of range for slice of length {ln}')
        return 0, en
    if 'RangeInclusive' in callee:
        st, en = conc(r.f[0]), conc(r.f[1])
        exhausted = len(r.f) > 2 and r.f[2]
        if en == (1 << 64) - 1:
            raise Panic('attempted to index slice up to maximum usize')
        e2 = en + 1
        s2 = e2 if exhausted else st
        if s2 > e2:
            raise Panic(f'slice index starts at {s2} but ends at {e2}')
        if e2 > ln:
            raise Panic(f'range end index {e2} out of range for slice of length {ln}')
        return s2, e2
    if 'Range<' in callee or (isinstance(r, Adt) and r.ty == 'Range'):
        st, en = conc(r.f[0]), conc(r.f[1])
        if st > en:
            raise Panic(f'slice index starts at {st} but ends at {en}')
        if en > ln:
            raise Panic(f'range end index {en} out of range for slice of length {ln}')
        return st, en
    raise Unsupported('index with ' + callee)


@native(r'as Index(Mut)?<.*>>::index(_mut)?$', 'Index::index')
def n_index(ex, callee, a, env):
    base = deref(a[0])
    r = a[1]
    if isinstance(r, (int,)) or is_sym(r):
        sl = as_slice(base)
        i = r if isinstance(r, int) else ex.concretize(r, 0, 64)
        if not 0 <= i < sl.len:
            raise Panic(f'index out of bounds: {i} of {sl.len}')
        return Ref(sl.buf, sl.start + i)
    sl = as_slice(base)
    st, en = _range_bounds(ex, callee, r, sl.len)
    if sl.is_str and callee.startswith('<str as'):
        # str slicing panics when a bound is not on a character boundary (the byte there is a UTF-8 continuation byte)
        items = sl.items()
        for pos in (st, en):
            if 0 < pos < sl.len and ex.truth(in_range(items[pos], 0x80, 0xBF)):
                raise Panic(f'byte index {pos} is not a char boundary')
    return Slice(sl.buf, sl.start + st, en - st, sl.is_str)


@native(r'RangeInclusive::<.*>::new$|RangeInclusive::new$', 'RangeInclusive::new')
def n_range_incl_new(ex, callee, a, env):
    return Adt('RangeInclusive', None, [a[0], a[1], False])


@native(r'^(core::)?slice::<impl \[.*\]>::copy_within$', 'slice::copy_within')
def n_copy_within(ex, callee, a, env):
    sl, r, dest = as_slice(a[0]), a[1], a[2]
    st, en = _range_bounds(ex, 'Range<' if isinstance(r, Adt) and r.ty == 'Range' else callee, r, sl.len)
    if not isinstance(dest, int):
        dest = ex.concretize(dest, 0, 64)
    if dest > sl.len - (en - st):
        raise Panic('copy_within: dest is out of bounds')
    tmp = sl.buf[sl.start + st: sl.start + en]
    for k, v in enumerate(tmp):
        sl.buf[sl.start + dest + k] = v
    return UNIT


@native(r'^(core::)?slice::<impl \[.*\]>::copy_from_slice$', 'slice::copy_from_slice')
def n_copy_from_slice(ex, callee, a, env):
    d, src = as_slice(a[0]), as_slice(a[1])
    if d.len != src.len:
        raise Panic('copy_from_slice: source slice length does not match destination')
    for k, v in enumerate(src.items()):
        d.buf[d.start + k] = v
    return UNIT


@native(r'^(core::)?slice::<impl \[.*\]>::fill$', 'slice::fill')
def n_fill(ex, callee, a, env):
    d = as_slice(a[0])
    for k in range(d.len):
        d.buf[d.start + k] = a[1]
    return UNIT


@native(r'^(core::)?slice::<impl \[.*\]>::contains$', 'slice::contains')
def n_contains(ex, callee, a, env):
    sl, x = as_slice(a[0]), deref(a[1])
    cs = []
    for b in sl.items():
        c = _eq(b, x)
        if c is True:
            return True
        if c is not False:
            cs.append(c)
    return z3.Or(*cs) if cs else False


# ----------------------------------------------------------------------------- Option / Result
@native(r'as Try>::branch$', 'Try::branch')
def n_branch(ex, callee, a, env):
    v = a[0]
    if v.ty == 'Result':
        return Adt('ControlFlow', 'Continue', [v.f[0]]) if v.variant == 'Ok' else Adt('ControlFlow', 'Break', [Err(v.f[0])])
    if v.ty == 'Option':
        return Adt('ControlFlow', 'Continue', [v.f[0]]) if v.variant == 'Some' else Adt('ControlFlow', 'Break', [NONE()])
    if v.ty == 'Poll':
        raise Unsupported('Try on Poll')
    raise Unsupported('Try::branch on ' + repr(v))


def value_type_name(v):
    if isinstance(v, Adt):
        return v.ty
    if isinstance(v, Tup) and not v.f:
        return '()'
    if isinstance(v, bool):
        return 'bool'
    return type(v).__name__


_CONV_CACHE = {}


def convert(ex, e, target, env):
    """From/Into conversion of value e to the target type"""
    src = value_type_name(e)
    key = (target, src, None if not env else tuple(sorted(env.items())))
    hit = _CONV_CACHE.get(key)
    if hit is None:
        hit = _convert_target(ex, src, target, env, isinstance(e, Adt))
        _CONV_CACHE[key] = hit
    if hit == 'id':
        return e
    return ex.call_fn(hit, [e], None)


def _convert_target(ex, src, target, env, is_adt):
    tgt = norm_type(subst_env(target, env))
    th = parse_type(tgt)[0]
    if src == th or tgt.startswith('<'):
        return 'id'
    if ex.impl_index is None:
        ex.build_impl_index()
    cands = []
    for f in ex.impl_index.get('from', []):
        if len(f.params) != 1:
            continue
        if parse_type(norm_type(f.ret))[0] != th:
            continue
        pt = parse_type(norm_type(f.params[0][1]))[0]
        if pt == src or (pt == 'tuple' and src == '()'):
            cands.append(f)
    if len(cands) == 1:
        return cands[0]
    if not cands:
        # associated / opaque error types (e.g. <A as Adapter>::Error) carried as plain values: identity
        if not is_adt:
            return 'id'
        raise Unsupported(f'no From<{src}> for {tgt}')
    raise Unsupported(f'ambiguous From<{src}> for {tgt}')


_RESIDUAL_CACHE = {}


@native(r'as FromResidual<.*>>::from_residual$', 'FromResidual::from_residual')
def n_from_residual(ex, callee, a, env):
    r = a[0]
    if re.search(r'FromResidual<(core::option::|std::option::)?Option<', callee) or getattr(r, 'ty', None) == 'Option':
        return NONE()
    key = (callee, None if not env else tuple(sorted(env.items())))
    info = _RESIDUAL_CACHE.get(key)
    if info is None:
        m = re.match(r'^<(.*) as (?:[\w:]+::)?FromResidual<', callee)
        pt = parse_type(norm_type(subst_env(m.group(1), env)))
        if pt[0] == 'Result':
            info = ('result', type_str(pt[1][1]))
        elif pt[0] == 'Poll' and pt[1][0][0] == 'Result':
            info = ('poll', type_str(pt[1][0][1][1]))
        else:
            raise Unsupported('from_residual into ' + m.group(1))
        _RESIDUAL_CACHE[key] = info
    if info[0] == 'result':
        return Err(convert(ex, r.f[0], info[1], env))
    return Ready(Err(convert(ex, r.f[0], info[1], env)))


@native(r'^<.* as Into<.*>>::into$', 'Into::into')
def n_into(ex, callee, a, env):
    m = re.match(r'^<(.*) as Into<(.*)>>::into$', strip_generics(callee) if False else callee)
    return convert(ex, a[0], m.group(2), env)


@native(r'^<.* as From<.*>>::from$', 'From::from')
def n_from(ex, callee, a, env):
    m = re.match(r'^<(.*) as From<(.*)>>::from$', callee)
    di, si = int_info(m.group(1)), int_info(m.group(2))
    if di and si and m.group(1) != 'bool':
        # lossless integer widening (u64::from(u32), i32::from(u8), uN::from(bool) ...)
        v = deref(a[0])
        if isinstance(v, bool):
            return int(v)
        if isinstance(v, int):
            return v
        if z3.is_bool(v):
            return z3.If(v, bvval(1, di[1]), bvval(0, di[1]))
        if z3.is_bv(v) and v.size() < di[1]:
            return z3.SignExt(di[1] - v.size(), v) if si[0] else z3.ZeroExt(di[1] - v.size(), v)
        return v
    return convert(ex, a[0], m.group(1), env)


@native(r'Result::map$', 'Result::map')
def n_res_map(ex, callee, a, env):
    r, f = a
    return Ok(ex.call_value(f, [r.f[0]])) if r.variant == 'Ok' else r


@native(r'Result::map_err$', 'Result::map_err')
def n_res_map_err(ex, callee, a, env):
    r, f = a
    return Err(ex.call_value(f, [r.f[0]])) if r.variant == 'Err' else r


@native(r'Result::or_else$', 'Result::or_else')
def n_res_or_else(ex, callee, a, env):
    r, f = a
    return ex.call_value(f, [r.f[0]]) if r.variant == 'Err' else r


@native(r'Result::and_then$', 'Result::and_then')
def n_res_and_then(ex, callee, a, env):
    r, f = a
    return ex.call_value(f, [r.f[0]]) if r.variant == 'Ok' else r


@native(r'Option::and_then$', 'Option::and_then')
def n_opt_and_then(ex, callee, a, env):
    r, f = a
    return ex.call_value(f, [r.f[0]]) if r.variant == 'Some' else r


@native(r'Result::or$', 'Result::or')
def n_res_or(ex, callee, a, env):
    return a[0] if a[0].variant == 'Ok' else a[1]


@native(r'Result::and$', 'Result::and')
def n_res_and(ex, callee, a, env):
    return a[1] if a[0].variant == 'Ok' else a[0]


@native(r'Option::or$', 'Option::or')
def n_opt_or(ex, callee, a, env):
    return a[0] if a[0].variant == 'Some' else a[1]


@native(r'Option::or_else$', 'Option::or_else')
def n_opt_or_else(ex, callee, a, env):
    return a[0] if a[0].variant == 'Some' else ex.call_value(a[1], [])


@native(r'(Result|Option)::unwrap_or$', 'unwrap_or')
def n_unwrap_or(ex, callee, a, env):
    return a[0].f[0] if a[0].variant in ('Ok', 'Some') else a[1]


@native(r'(Result|Option)::unwrap_or_default$', 'unwrap_or_default')
def n_unwrap_or_default(ex, callee, a, env):
    if a[0].variant in ('Ok', 'Some'):
        return a[0].f[0]
    raise Unsupported('unwrap_or_default: default value of unknown type')


@native(r'(Result|Option)::unwrap_or_else$', 'unwrap_or_else')
def n_unwrap_or_else(ex, callee, a, env):
    r, f = a
    return r.f[0] if r.variant in ('Ok', 'Some') else ex.call_value(f, [r.f[0]] if r.ty == 'Result' else [])


@native(r'(Result|Option)::(unwrap|expect)$', 'unwrap/expect')
def n_unwrap(ex, callee, a, env):
    if a[0].variant in ('Ok', 'Some'):
        return a[0].f[0]
    raise Panic(f'called `{a[0].ty}::unwrap()` on a `{a[0].variant}` value')


@native(r'(Result)::(unwrap_err|expect_err)$', 'unwrap_err')
def n_unwrap_err(ex, callee, a, env):
    if a[0].variant == 'Err':
        return a[0].f[0]
    raise Panic('called `Result::unwrap_err()` on an `Ok` value')


@native(r'Option::ok_or$', 'Option::ok_or')
def n_ok_or(ex, callee, a, env):
    return Ok(a[0].f[0]) if a[0].variant == 'Some' else Err(a[1])


@native(r'Option::ok_or_else$', 'Option::ok_or_else')
def n_ok_or_else(ex, callee, a, env):
    return Ok(a[0].f[0]) if a[0].variant == 'Some' else Err(ex.call_value(a[1], []))


@native(r'Result::ok$', 'Result::ok')
def n_res_ok(ex, callee, a, env):
    return Some(a[0].f[0]) if a[0].variant == 'Ok' else NONE()


@native(r'Result::err$', 'Result::err')
def n_res_err(ex, callee, a, env):
    return Some(a[0].f[0]) if a[0].variant == 'Err' else NONE()


@native(r'Option::is_some$', 'Option::is_some')
def n_is_some(ex, callee, a, env):
    return deref(a[0]).variant == 'Some'


@native(r'Option::is_none$', 'Option::is_none')
def n_is_none(ex, callee, a, env):
    return deref(a[0]).variant == 'None'


@native(r'Result::is_ok$', 'Result::is_ok')
def n_is_ok(ex, callee, a, env):
    return deref(a[0]).variant == 'Ok'


@native(r'Result::is_err$', 'Result::is_err')
def n_is_err(ex, callee, a, env):
    return deref(a[0]).variant == 'Err'


@native(r'Option::map$', 'Option::map')
def n_opt_map(ex, callee, a, env):
    r, f = a
    return Some(ex.call_value(f, [r.f[0]])) if r.variant == 'Some' else r


@native(r'Option::(as_ref|as_mut)$', 'Option::as_ref')
def n_opt_as_ref(ex, callee, a, env):
    o = deref(a[0])
    return Some(Ref(o.f, 0)) if o.variant == 'Some' else NONE()


@native(r'Option::take$', 'Option::take')
def n_opt_take(ex, callee, a, env):
    r = a[0]
    o = r.get()
    r.set(NONE())
    return o


@native(r'Option::copied$|Option::cloned$', 'Option::copied')
def n_opt_copied(ex, callee, a, env):
    o = a[0]
    return Some(copy_val(deref(o.f[0]))) if o.variant == 'Some' else o


@native(r'as Clone>::clone$', 'Clone::clone')
def n_clone(ex, callee, a, env):
    return copy_val(deref(a[0]))


# ----------------------------------------------------------------------------- bytes / chars
_MEMO = {}      # (op, ast id, ...) -> (expr kept alive, result)


def in_range(b, lo, hi):
    if isinstance(b, int):
        return lo <= b <= hi
    key = ('r', b.get_id(), lo, hi)
    r = _MEMO.get(key)
    if r is None:
        w = b.size()
        if lo == 0:
            e = z3.ULE(b, bvval(hi, w))
        else:
            e = z3.And(z3.UGE(b, bvval(lo, w)), z3.ULE(b, bvval(hi, w)))
        r = _MEMO[key] = (b, e)
    return r[1]


def Or(*xs):
    if any(x is True for x in xs):
        return True
    ys = [x for x in xs if x is not False]
    if not ys:
        return False
    return z3.Or(*ys) if len(ys) > 1 else ys[0]


def And(*xs):
    if any(x is False for x in xs):
        return False
    ys = [x for x in xs if x is not True]
    if not ys:
        return True
    return z3.And(*ys) if len(ys) > 1 else ys[0]


def Not(x):
    if isinstance(x, bool):
        return not x
    return z3.Not(x)


def _eq(p, q):
    pi, qi = isinstance(p, int), isinstance(q, int)
    if pi and qi:
        return p == q
    if isinstance(p, Token) or isinstance(q, Token):
        raise Unsupported('comparison with a text token')
    if qi or pi:
        if pi:
            p, q = q, p
        key = ('e', p.get_id(), q)
        r = _MEMO.get(key)
        if r is None:
            r = _MEMO[key] = (p, p == bvval(q, p.size()))
        return r[1]
    return p == q


def _all_eq(xs, ys):
    cs = []
    for p, q in zip(xs, ys):
        c = _eq(p, q)
        if c is False:
            return False
        if c is not True:
            cs.append(c)
    return z3.And(*cs) if len(cs) > 1 else (cs[0] if cs else True)


@native(r'is_ascii_digit$', 'is_ascii_digit')
def n_is_ascii_digit(ex, callee, a, env):
    return in_range(deref(a[0]), 48, 57)


@native(r'is_ascii_alphabetic$', 'is_ascii_alphabetic')
def n_is_ascii_alphabetic(ex, callee, a, env):
    b = deref(a[0])
    return Or(in_range(b, 65, 90), in_range(b, 97, 122))


@native(r'is_ascii_alphanumeric$', 'is_ascii_alphanumeric')
def n_is_ascii_alphanumeric(ex, callee, a, env):
    b = deref(a[0])
    return Or(in_range(b, 48, 57), in_range(b, 65, 90), in_range(b, 97, 122))


@native(r'is_ascii_hexdigit$', 'is_ascii_hexdigit')
def n_is_ascii_hexdigit(ex, callee, a, env):
    b = deref(a[0])
    return Or(in_range(b, 48, 57), in_range(b, 65, 70), in_range(b, 97, 102))


@native(r'is_ascii_uppercase$', 'is_ascii_uppercase')
def n_is_ascii_uppercase(ex, callee, a, env):
    return in_range(deref(a[0]), 65, 90)


@native(r'is_ascii_lowercase$', 'is_ascii_lowercase')
def n_is_ascii_lowercase(ex, callee, a, env):
    return in_range(deref(a[0]), 97, 122)


@native(r'is_ascii_whitespace$', 'is_ascii_whitespace')
def n_is_ascii_whitespace(ex, callee, a, env):
    b = deref(a[0])
    return Or(_eq(b, 32), _eq(b, 9), _eq(b, 10), _eq(b, 12), _eq(b, 13))


@native(r'is_ascii_punctuation$', 'is_ascii_punctuation')
def n_is_ascii_punct(ex, callee, a, env):
    b = deref(a[0])
    return Or(in_range(b, 33, 47), in_range(b, 58, 64), in_range(b, 91, 96), in_range(b, 123, 126))


@native(r'is_ascii_graphic$', 'is_ascii_graphic')
def n_is_ascii_graphic(ex, callee, a, env):
    return in_range(deref(a[0]), 33, 126)


@native(r'is_ascii_control$', 'is_ascii_control')
def n_is_ascii_control(ex, callee, a, env):
    b = deref(a[0])
    return Or(in_range(b, 0, 31), _eq(b, 127))


@native(r'::is_ascii$', 'is_ascii')
def n_is_ascii(ex, callee, a, env):
    v = deref(a[0])
    if isinstance(v, (Slice, list, HVec)):
        return And(*[in_range(b, 0, 127) for b in as_slice(v).items()])
    return in_range(v, 0, 127)


def lower(b):
    if isinstance(b, int):
        return b | 0x20 if 65 <= b <= 90 else b
    key = ('l', b.get_id())
    r = _MEMO.get(key)
    if r is None:
        r = _MEMO[key] = (b, z3.If(in_range(b, 65, 90), b | bvval(0x20, b.size()), b))
    return r[1]


def upper(b):
    if isinstance(b, int):
        return b & 0xDF if 97 <= b <= 122 else b
    return z3.If(z3.And(z3.UGE(b, 97), z3.ULE(b, 122)), b & 0xDF, b)


@native(r'to_ascii_lowercase$', 'to_ascii_lowercase')
def n_to_lower(ex, callee, a, env):
    return lower(deref(a[0]))


@native(r'to_ascii_uppercase$', 'to_ascii_uppercase')
def n_to_upper(ex, callee, a, env):
    return upper(deref(a[0]))


@native(r'eq_ignore_ascii_case$', 'eq_ignore_ascii_case')
def n_eq_ignore_case(ex, callee, a, env):
    x, y = deref(a[0]), deref(a[1])
    if isinstance(x, (Slice, list, HVec)):
        x, y = as_slice(x), as_slice(y)
        if x.len != y.len:
            return False
        return _all_eq([lower(p) for p in x.items()], [lower(q) for q in y.items()])
    return _eq(lower(x), lower(y))


@native(r'Range(Inclusive)?(::<.*>)?::contains$|as RangeBounds<.*>>::contains$', 'Range::contains')
def n_range_contains(ex, callee, a, env):
    r, x = deref(a[0]), deref(a[1])
    lo, hi = r.f[0], r.f[1]
    incl = r.ty == 'RangeInclusive'
    if isinstance(x, int) and isinstance(lo, int) and isinstance(hi, int):
        return lo <= x <= hi if incl else lo <= x < hi
    # unsigned (u8 / usize in this code base)
    x2 = x if is_sym(x) else None
    w = (x if is_sym(x) else lo if is_sym(lo) else hi).size()
    X = x if is_sym(x) else bvval(x, w)
    L = lo if is_sym(lo) else bvval(lo, w)
    H = hi if is_sym(hi) else bvval(hi, w)
    return z3.And(z3.UGE(X, L), z3.ULE(X, H) if incl else z3.ULT(X, H))


@native(r'^<(&)?(str|\[.*\]) as PartialEq(<.*>)?>::(eq|ne)$|^<&&str as PartialEq>::(eq|ne)$', 'str/slice ==')
def n_str_eq(ex, callee, a, env):
    x, y = as_slice(a[0]), as_slice(a[1])
    ne = callee.endswith('::ne')
    if x.len != y.len:
        return ne
    r = _all_eq(x.items(), y.items())
    return Not(r) if ne else r


@native(r'^<u8 as PartialEq>::(eq|ne)$|^<(u|i)(8|16|32|64|size) as PartialEq>::(eq|ne)$', 'int ==')
def n_int_eq(ex, callee, a, env):
    r = _eq(deref(a[0]), deref(a[1]))
    return Not(r) if callee.endswith('::ne') else r


def utf8_valid(ex, items):
    """exact UTF-8 validity of a sequence of concrete/symbolic bytes (forks where undecided); follows
    core::str::from_utf8 (RFC 3629 ranges, no overlongs, no surrogates, max U+10FFFF)"""
    i = 0
    n = len(items)

    def t(c):
        return ex.truth(c) if not isinstance(c, bool) else c

    def cont(b, lo=0x80, hi=0xBF):
        return t(in_range(b, lo, hi))
    while i < n:
        b = items[i]
        if isinstance(b, Token):
            i += 1
            continue
        if t(in_range(b, 0, 0x7F)):
            i += 1
            continue
        if t(in_range(b, 0xC2, 0xDF)):
            if i + 1 >= n or not cont(items[i + 1]):
                return False
            i += 2
            continue
        if t(in_range(b, 0xE0, 0xEF)):
            if i + 2 >= n:
                return False
            if t(_eq(b, 0xE0)):
                ok = cont(items[i + 1], 0xA0, 0xBF)
            elif t(_eq(b, 0xED)):
                ok = cont(items[i + 1], 0x80, 0x9F)
            else:
                ok = cont(items[i + 1])
            if not ok or not cont(items[i + 2]):
                return False
            i += 3
            continue
        if t(in_range(b, 0xF0, 0xF4)):
            if i + 3 >= n:
                return False
            if t(_eq(b, 0xF0)):
                ok = cont(items[i + 1], 0x90, 0xBF)
            elif t(_eq(b, 0xF4)):
                ok = cont(items[i + 1], 0x80, 0x8F)
            else:
                ok = cont(items[i + 1])
            if not ok or not cont(items[i + 2]) or not cont(items[i + 3]):
                return False
            i += 4
            continue
        return False
    return True


@native(r'(^|::)from_utf8$', 'str::from_utf8')
def n_from_utf8(ex, callee, a, env):
    sl = as_slice(a[0])
    if utf8_valid(ex, sl.items()):
        return Ok(Slice(sl.buf, sl.start, sl.len, True))
    return Err(Adt('Utf8Error', None, []))


@native(r'(^|::)from_utf8_unchecked$', 'str::from_utf8_unchecked')
def n_from_utf8_unchecked(ex, callee, a, env):
    sl = as_slice(a[0])
    return Slice(sl.buf, sl.start, sl.len, True)


# ----------------------------------------------------------------------------- numbers
def parse_int_model(ex, items, radix, signed, bits):
    """contract of {integer}::from_str_radix (checked against compiled core by the Kani harnesses):
    optional single '+' (or '-' for signed types), then 1.. digits of the radix (letters either case);
    value must fit the type.  Returns python int / z3 BitVec of width `bits`, or None for Err."""
    def t(c):
        return ex.truth(c) if not isinstance(c, bool) else c
    if not items:
        return None
    if any(isinstance(b, Token) for b in items):
        raise Unsupported('from_str_radix on a text token')
    neg = False
    first = items[0]
    start = 0
    if t(_eq(first, 43)):
        start = 1
    elif t(_eq(first, 45)):
        # core: for unsigned types a leading '-' is an invalid digit; "-" alone too
        if not signed:
            return None
        neg = True
        start = 1
    if start == len(items):
        return None
    W = bits + 8     # room to detect overflow
    digs = []
    for b in items[start:]:
        if isinstance(b, int):
            if 48 <= b <= 57:
                d = b - 48
            elif 97 <= b <= 122:
                d = b - 97 + 10
            elif 65 <= b <= 90:
                d = b - 65 + 10
            else:
                return None
            if d >= radix:
                return None
            digs.append(d)
        else:
            if t(in_range(b, 48, min(57, 48 + radix - 1))):
                digs.append(z3.ZeroExt(W - 8, b - 48))
            elif radix > 10 and t(in_range(b, 97, 97 + radix - 11)):
                digs.append(z3.ZeroExt(W - 8, b - 87))
            elif radix > 10 and t(in_range(b, 65, 65 + radix - 11)):
                digs.append(z3.ZeroExt(W - 8, b - 55))
            else:
                return None
    if all(isinstance(d, int) for d in digs):
        v = 0
        for d in digs:
            v = v * radix + d
        if neg:
            v = -v
        lo, hi = (-(1 << (bits - 1)), (1 << (bits - 1)) - 1) if signed else (0, (1 << bits) - 1)
        return v if lo <= v <= hi else None
    # symbolic: accumulate in W bits with an explicit overflow flag per step
    limit_pos = (1 << (bits - 1)) - 1 if signed else (1 << bits) - 1
    limit_neg = 1 << (bits - 1)
    limit = limit_neg if neg else limit_pos
    acc = bvval(0, W)
    ok = True
    for d in digs:
        dz = d if is_sym(d) else bvval(d, W)
        # acc <= limit (< 2^bits) so acc*radix + d < 2^(bits+6): no wrap in W bits for radix <= 36
        acc = acc * radix + dz
        ok = And(ok, z3.ULE(acc, limit))
        if not t(ok):
            return None
        ok = True
    val = z3.Extract(bits - 1, 0, acc)
    return -val if neg else val


@native(r'from_str_radix$', 'int::from_str_radix')
def n_from_str_radix(ex, callee, a, env):
    sl, radix = as_slice(a[0]), a[1]
    m = re.search(r'\b([iu](?:8|16|32|64|128|size))::from_str_radix|<impl ([iu](?:8|16|32|64|128|size))>::from_str_radix|num::from_str_radix', callee)
    ty = None
    if m:
        ty = m.group(1) or m.group(2)
    if ty is None:
        m = re.search(r'\b([iu](?:8|16|32|64|128|size))\b', callee)
        ty = m.group(1) if m else None
    if ty is None:
        raise Unsupported('from_str_radix: integer type not visible in ' + callee)
    signed, bits = int_info(ty)
    v = parse_int_model(ex, sl.items(), radix, signed, bits)
    if v is None:
        return Err(Adt('ParseIntError', None, []))
    return Ok(v)


@native(r'^(core::)?str::<impl str>::parse$|^str::parse$', 'str::parse')
def n_str_parse(ex, callee, a, env):
    sl = as_slice(a[0])
    m = re.search(r'parse::<(\w+)>', callee)
    ty = m.group(1) if m else None
    items = sl.items()
    if ty in ('f32', 'f64'):
        return parse_float_model(ex, items, ty)
    ii = int_info(ty or '')
    if ii and ty != 'bool' and ty != 'char':
        v = parse_int_model(ex, items, 10, ii[0], ii[1])
        return Err(Adt('ParseIntError', None, [])) if v is None else Ok(v)
    raise Unsupported('str::parse::<%s>' % ty)


def float_syntax_ok(ex, items):
    """the grammar accepted by core's dec2flt: [+-] (digits [. digits*] | . digits) [(e|E) [+-] digits] | inf | infinity | nan"""
    def t(c):
        return ex.truth(c) if not isinstance(c, bool) else c
    n = len(items)
    i = 0
    if n == 0:
        return False
    if t(Or(_eq(items[0], 43), _eq(items[0], 45))):
        i = 1
    if i >= n:
        return False
    # special values (case-insensitive)
    rest = items[i:]
    for word in (b'inf', b'infinity', b'nan'):
        if len(rest) == len(word) and t(_all_eq([lower(x) for x in rest], list(word))):
            return True
    nd = 0
    while i < n and t(in_range(items[i], 48, 57)):
        i += 1
        nd += 1
    if i < n and t(_eq(items[i], 46)):
        i += 1
        while i < n and t(in_range(items[i], 48, 57)):
            i += 1
            nd += 1
    if nd == 0:
        return False
    if i < n and t(Or(_eq(items[i], 101), _eq(items[i], 69))):
        i += 1
        if i < n and t(Or(_eq(items[i], 43), _eq(items[i], 45))):
            i += 1
        ne = 0
        while i < n and t(in_range(items[i], 48, 57)):
            i += 1
            ne += 1
        if ne == 0:
            return False
    return i == n


def parse_float_model(ex, items, ty):
    if not float_syntax_ok(ex, items):
        return Err(Adt('ParseFloatError', None, []))
    if all(isinstance(b, int) for b in items):
        import struct
        txt = bytes(items).decode('ascii')
        if ty == 'f64':
            bits = struct.unpack('<Q', struct.pack('<d', float(txt)))[0]
        else:
            import numpy as np
            bits = int(np.array([np.float32(txt)], dtype=np.float32).view(np.uint32)[0])
        return Ok(FloatVal(bits, ty, list(items)))
    # symbolic text: the value is "the correctly rounded value of this text" (trusted dec2flt); kept as text
    return Ok(FloatVal(None, ty, list(items)))


@native(r'(f32|f64)(::<.*>)?::is_nan$', 'float::is_nan')
def n_is_nan(ex, callee, a, env):
    return float_class(ex, deref(a[0]), 'nan')


@native(r'(f32|f64)(::<.*>)?::is_infinite$', 'float::is_infinite')
def n_is_inf(ex, callee, a, env):
    return float_class(ex, deref(a[0]), 'inf')


@native(r'(f32|f64)(::<.*>)?::is_sign_negative$', 'float::is_sign_negative')
def n_is_sign_neg(ex, callee, a, env):
    return float_class(ex, deref(a[0]), 'neg')


@native(r'(f32|f64)(::<.*>)?::is_finite$', 'float::is_finite')
def n_is_finite(ex, callee, a, env):
    f = deref(a[0])
    return Not(Or(float_class(ex, f, 'nan'), float_class(ex, f, 'inf')))


def float_class(ex, f, what):
    if not isinstance(f, FloatVal) or f.bits is None:
        raise Unsupported(f'float classification of {f!r}')
    eb, mb = (8, 23) if f.ty == 'f32' else (11, 52)
    bits = f.bits
    if isinstance(bits, int):
        e = (bits >> mb) & ((1 << eb) - 1)
        m = bits & ((1 << mb) - 1)
        sgn = bits >> (eb + mb)
        if what == 'nan':
            return e == (1 << eb) - 1 and m != 0
        if what == 'inf':
            return e == (1 << eb) - 1 and m == 0
        return sgn == 1
    # z3 floating-point theory over the symbolic bit pattern
    sort = z3.Float32() if f.ty == 'f32' else z3.Float64()
    fp = z3.fpBVToFP(bits, sort)
    if what == 'nan':
        return z3.fpIsNaN(fp)
    if what == 'inf':
        return z3.fpIsInf(fp)
    return z3.Extract(eb + mb, eb + mb, bits) == 1


@native(r'(usize|u8|u16|u32|u64)(::<.*>)?::ilog10$|num::<impl (usize|u8|u16|u32|u64)>::ilog10$', 'uint::ilog10')
def n_ilog10(ex, callee, a, env):
    v = a[0]
    if not isinstance(v, int):
        v = ex.concretize(v, 0, 255)
    if v <= 0:
        raise Panic('argument of integer logarithm must be positive')
    return len(str(v)) - 1


@native(r'(usize|u8|u16|u32|u64|i8|i16|i32|i64|isize)(::<.*>)?::(checked_add|checked_sub|checked_mul)$|num::<impl \w+>::(checked_add|checked_sub|checked_mul)$', 'int::checked_*')
def n_checked(ex, callee, a, env):
    m = re.search(r'([iu](?:8|16|32|64|size))>?::(checked_\w+)$', callee)
    signed, bits = int_info(m.group(1))
    op = m.group(2)
    x, y = a
    if isinstance(x, int) and isinstance(y, int):
        r = {'checked_add': x + y, 'checked_sub': x - y, 'checked_mul': x * y}[op]
        lo, hi = (-(1 << (bits - 1)), (1 << (bits - 1)) - 1) if signed else (0, (1 << bits) - 1)
        return Some(r) if lo <= r <= hi else NONE()
    from .engine import int_arith
    t = int_arith(ex, {'checked_add': 'Add', 'checked_sub': 'Sub', 'checked_mul': 'Mul'}[op], deref(x), deref(y), signed, bits, True)
    ov = t.f[1]
    if (ov is True) or (is_sym(ov) and ex.truth(ov)):
        return NONE()
    return Some(t.f[0])


@native(r'::(wrapping_add|wrapping_sub|wrapping_mul|saturating_sub|saturating_add)$', 'int::wrapping/saturating')
def n_wrapping(ex, callee, a, env):
    m = re.search(r'([iu](?:8|16|32|64|size))>?::(\w+)$', callee)
    if not m:
        raise Unsupported(callee)
    signed, bits = int_info(m.group(1))
    op = m.group(2)
    x, y = a
    if isinstance(x, int) and isinstance(y, int):
        lo, hi = (-(1 << (bits - 1)), (1 << (bits - 1)) - 1) if signed else (0, (1 << bits) - 1)
        if op.startswith('wrapping'):
            r = {'wrapping_add': x + y, 'wrapping_sub': x - y, 'wrapping_mul': x * y}[op]
            return mask(r, signed, bits)
        r = x + y if op == 'saturating_add' else x - y
        return max(lo, min(hi, r))
    if op == 'wrapping_add':
        return x + y
    if op == 'wrapping_sub':
        return x - y
    if op == 'wrapping_mul':
        return x * y
    raise Unsupported('symbolic ' + op)


@native(r'(^|::)(cmp::)?(min|max)$|as Ord>::(min|max)$', 'min/max')
def n_minmax(ex, callee, a, env):
    x, y = a
    if isinstance(x, int) and isinstance(y, int):
        return min(x, y) if callee.rstrip('>').endswith('min') or '::min' in callee else max(x, y)
    raise Unsupported('symbolic min/max')


# ----------------------------------------------------------------------------- futures
@native(r'^Pin::<.*>::new_unchecked$|^Pin::new_unchecked$|^Pin::<.*>::new$|^Pin::new$', 'Pin::new')
def n_pin_new(ex, callee, a, env):
    return Adt('Pin', None, [a[0]])


@native(r'as IntoFuture>::into_future$', 'IntoFuture::into_future')
def n_into_future(ex, callee, a, env):
    return a[0]


@native(r'Pin::<.*>::(as_mut|get_mut|get_unchecked_mut|into_inner)$|^Pin::(as_mut|get_mut|get_unchecked_mut)$', 'Pin::as_mut')
def n_pin_as_mut(ex, callee, a, env):
    p = deref(a[0])
    if callee.endswith('as_mut'):
        return Adt('Pin', None, [p.f[0]])
    return p.f[0]


@native(r'as Future>::poll$', 'Future::poll')
def n_poll(ex, callee, a, env):
    pin = a[0]
    inner = deref(pin.f[0])
    if isinstance(inner, Coroutine):
        return ex.call_fn(inner.body, [pin, a[1]], inner.env)
    if isinstance(inner, NativeFuture):
        if inner.pend > 0:
            inner.pend -= 1
            ex.pending_seen = getattr(ex, 'pending_seen', 0) + 1
            return PENDING()
        if inner.thunk is not None:
            inner.v = inner.thunk()
            inner.thunk = None
        return Ready(inner.v)
    raise Unsupported(f'poll on {inner!r}')


def block_on(ex, fut, max_polls=64):
    """the executor used by the harness: poll until Ready"""
    pin = Adt('Pin', None, [Ref([fut], 0)])
    cx = Ref([Opaque('Context')], 0)
    for _ in range(max_polls):
        if isinstance(fut, Coroutine):
            r = ex.call_fn(fut.body, [pin, cx], fut.env)
        elif isinstance(fut, NativeFuture):
            r = n_poll(ex, 'poll', [pin, cx], None)
        else:
            raise Unsupported(f'block_on {fut!r}')
        if r.variant == 'Ready':
            return r.f[0]
    raise Unsupported('future still pending after %d polls' % max_polls)


# ----------------------------------------------------------------------------- heapless
def _cap_from(callee, env, default=None):
    txt = subst_env(callee, env)
    m = re.search(r'(?:Vec|String|Deque)::<(.*)>::\w+$', txt)
    if m:
        parts = split_top(m.group(1))
        last = parts[-1].strip()
        last = re.sub(r'^const ', '', last)
        last = re.sub(r'_usize$', '', last)
        if last.isdigit():
            return int(last)
        if last.startswith('{') or '::' in last:
            return None
    return default


@native(r'^(heapless::)?(vec::)?Vec(::<.*>)?::new$', 'heapless::Vec::new')
def n_hvec_new(ex, callee, a, env):
    if 'alloc::' in callee or 'std::' in callee:
        raise Unsupported('heap Vec::new')
    cap = _cap_from(callee, env)
    if cap is None:
        # Vec::<Value<'_>, {const}>::new() -- MAX_ARGS
        m = re.search(r'Vec::<.*, (.*)>::new$', subst_env(callee, env))
        c = m.group(1) if m else None
        f = ex.lookup(c.strip('{} ')) if c else None
        if f is None and c:
            f = ex.lookup('MAX_ARGS')
        if f is None:
            raise Unsupported('capacity of ' + callee)
        cap = ex.const_value(f)
    return HVec(cap)


@native(r'^(heapless::)?(string::)?String(::<.*>)?::new$', 'heapless::String::new')
def n_hstring_new(ex, callee, a, env):
    cap = _cap_from(callee, env)
    if cap is None:
        raise Unsupported('capacity of ' + callee)
    return HVec(cap, True)


@native(r'^(heapless::)?(vec::)?Vec(::<.*>)?::push$', 'heapless::Vec::push')
def n_hvec_push(ex, callee, a, env):
    v = deref(a[0])
    if len(v.items) >= v.cap:
        return Err(a[1])
    v.items.append(a[1])
    return Ok(UNIT)


def _token_len(b):
    if isinstance(b, Token):
        raise Unsupported('text token of unmodelled length written to a capacity-limited buffer')
    return 1


@native(r'^(heapless::)?(vec::)?Vec(::<.*>)?::extend_from_slice$', 'heapless::Vec::extend_from_slice')
def n_hvec_extend(ex, callee, a, env):
    v, sl = deref(a[0]), as_slice(a[1])
    if len(v.items) + sl.len > v.cap:
        return Err(UNIT)
    v.items.extend(sl.items())
    return Ok(UNIT)


@native(r'^(heapless::)?(string::)?String(::<.*>)?::push_str$', 'heapless::String::push_str')
def n_hstring_push_str(ex, callee, a, env):
    return n_hvec_extend(ex, callee, a, env)


@native(r'^(heapless::)?(vec::)?Vec(::<.*>)?::is_empty$', 'heapless::Vec::is_empty')
def n_hvec_is_empty(ex, callee, a, env):
    return len(deref(a[0]).items) == 0


@native(r'^(heapless::)?(vec::)?Vec(::<.*>)?::len$', 'heapless::Vec::len')
def n_hvec_len(ex, callee, a, env):
    return len(deref(a[0]).items)


@native(r'^(heapless::)?(vec::)?Vec(::<.*>)?::is_full$', 'heapless::Vec::is_full')
def n_hvec_is_full(ex, callee, a, env):
    v = deref(a[0])
    return len(v.items) >= v.cap


@native(r'^(heapless::)?(vec::)?Vec(::<.*>)?::capacity$', 'heapless::Vec::capacity')
def n_hvec_capacity(ex, callee, a, env):
    return deref(a[0]).cap


@native(r'^(heapless::)?(vec::)?Vec(::<.*>)?::clear$', 'heapless::Vec::clear')
def n_hvec_clear(ex, callee, a, env):
    deref(a[0]).items.clear()
    return UNIT


@native(r'^(heapless::)?(vec::)?Vec(::<.*>)?::pop$', 'heapless::Vec::pop')
def n_hvec_pop(ex, callee, a, env):
    v = deref(a[0])
    return Some(v.items.pop()) if v.items else NONE()


@native(r'^(heapless::)?(vec::)?Vec(::<.*>)?::truncate$', 'heapless::Vec::truncate')
def n_hvec_truncate(ex, callee, a, env):
    v = deref(a[0])
    del v.items[a[1]:]
    return UNIT


@native(r'^(heapless::)?(vec::)?Vec(::<.*>)?::(as_slice|as_mut_slice)$|^<(heapless::)?(vec::)?Vec<.*> as (Deref|DerefMut|AsRef<.*>)>::(deref|deref_mut|as_ref)$', 'heapless::Vec::deref')
def n_hvec_deref(ex, callee, a, env):
    v = deref(a[0])
    return Slice(v.items, 0, len(v.items))


@native(r'^(heapless::)?(string::)?String(::<.*>)?::as_str$|^<(heapless::)?(string::)?String<.*> as (Deref|AsRef<.*>)>::(deref|as_ref)$', 'heapless::String::as_str')
def n_hstring_as_str(ex, callee, a, env):
    v = deref(a[0])
    return Slice(v.items, 0, len(v.items), True)


@native(r'^(heapless::)?(deque::)?Deque(::<.*>)?::new$|^<(heapless::)?(deque::)?Deque<.*> as Default>::default$', 'heapless::Deque::new')
def n_deque_new(ex, callee, a, env):
    m = re.search(r'Deque::?<(.*)>', subst_env(callee, env))
    cap = None
    if m:
        last = split_top(m.group(1))[-1].strip()
        if last.isdigit():
            cap = int(last)
    if cap is None:
        cap = (env or {}).get('N')
        cap = int(cap) if cap is not None and str(cap).isdigit() else None
    if cap is None:
        raise Unsupported('capacity of ' + callee)
    return Deque(cap)


@native(r'^(heapless::)?(deque::)?Deque(::<.*>)?::push_back$', 'heapless::Deque::push_back')
def n_deque_push_back(ex, callee, a, env):
    d = deref(a[0])
    if len(d.items) >= d.cap:
        return Err(a[1])
    d.items.append(a[1])
    return Ok(UNIT)


@native(r'^(heapless::)?(deque::)?Deque(::<.*>)?::push_front$', 'heapless::Deque::push_front')
def n_deque_push_front(ex, callee, a, env):
    d = deref(a[0])
    if len(d.items) >= d.cap:
        return Err(a[1])
    d.items.insert(0, a[1])
    return Ok(UNIT)


@native(r'^(heapless::)?(deque::)?Deque(::<.*>)?::pop_front$', 'heapless::Deque::pop_front')
def n_deque_pop_front(ex, callee, a, env):
    d = deref(a[0])
    return Some(d.items.pop(0)) if d.items else NONE()


@native(r'^(heapless::)?(deque::)?Deque(::<.*>)?::pop_back$', 'heapless::Deque::pop_back')
def n_deque_pop_back(ex, callee, a, env):
    d = deref(a[0])
    return Some(d.items.pop()) if d.items else NONE()


@native(r'^(heapless::)?(deque::)?Deque(::<.*>)?::(back_mut|back)$', 'heapless::Deque::back_mut')
def n_deque_back_mut(ex, callee, a, env):
    d = deref(a[0])
    return Some(Ref(d.items, len(d.items) - 1)) if d.items else NONE()


@native(r'^(heapless::)?(deque::)?Deque(::<.*>)?::(front_mut|front)$', 'heapless::Deque::front_mut')
def n_deque_front_mut(ex, callee, a, env):
    d = deref(a[0])
    return Some(Ref(d.items, 0)) if d.items else NONE()


@native(r'^(heapless::)?(deque::)?Deque(::<.*>)?::len$', 'heapless::Deque::len')
def n_deque_len(ex, callee, a, env):
    return len(deref(a[0]).items)


@native(r'^(heapless::)?(deque::)?Deque(::<.*>)?::is_empty$', 'heapless::Deque::is_empty')
def n_deque_is_empty(ex, callee, a, env):
    return len(deref(a[0]).items) == 0


@native(r'^(heapless::)?(deque::)?Deque(::<.*>)?::is_full$', 'heapless::Deque::is_full')
def n_deque_is_full(ex, callee, a, env):
    d = deref(a[0])
    return len(d.items) >= d.cap


@native(r'^(heapless::)?(deque::)?Deque(::<.*>)?::clear$', 'heapless::Deque::clear')
def n_deque_clear(ex, callee, a, env):
    deref(a[0]).items.clear()
    return UNIT


# ----------------------------------------------------------------------------- core::fmt
@native(r'fmt::rt::Argument(::<.*>)?::new_(display|debug|lower_hex|upper_hex|octal|binary|lower_exp|upper_exp)$', 'fmt::Argument::new_*')
def n_fmt_arg(ex, callee, a, env):
    m = re.search(r'new_(\w+?)(?:::<(.*)>)?$', subst_env(callee, env))
    kind = m.group(1)
    ty = m.group(2) or ''
    return FmtArg(kind, a[0], norm_type(ty).lstrip('&'))


@native(r'^(core::fmt::)?Arguments(::<.*>)?::new$', 'fmt::Arguments::new')
def n_fmt_arguments_new(ex, callee, a, env):
    tmpl = deref(a[0])
    if isinstance(tmpl, Slice):
        tmpl = tmpl.items()
    args = deref(a[1])
    if isinstance(args, Slice):
        args = args.items()
    return FmtArguments(list(tmpl), list(args))


@native(r'^(core::fmt::)?Arguments(::<.*>)?::(from_str|new_const)$', 'fmt::Arguments::from_str')
def n_fmt_arguments_from_str(ex, callee, a, env):
    v = deref(a[0])
    if isinstance(v, list) and len(v) == 1:
        v = deref(v[0])
    sl = as_slice(v)
    return FmtArguments(None, [FmtArg('literal', sl, 'str')])


def render_int(ex, v, ty):
    """decimal text of an integer, as `impl Display for {integer}` writes it: list of pieces (each one
    write_str of the real implementation): optional '-' then the digits"""
    if isinstance(v, bool):
        v = int(v)
    if isinstance(v, int):
        txt = str(v)
        if txt.startswith('-'):
            return [[45], list(txt[1:].encode())]
        return [list(txt.encode())]
    return [[Token('int', v, ty)]]


def render_float(ex, f):
    if isinstance(f.bits, int):
        return [list(rust_float_display(f.bits, f.ty).encode())]
    return [[Token('float', f.bits if f.bits is not None else tuple(f.src), f.ty)]]


def rust_float_display(bits, ty):
    """text of `format!("{}", x)` for a finite/non-finite float: shortest digits that round-trip, never exponent form"""
    import struct
    from decimal import Decimal
    if ty == 'f64':
        x = struct.unpack('<d', struct.pack('<Q', bits))[0]
        r = repr(x)
    else:
        import numpy as np
        x32 = np.array([bits], dtype=np.uint32).view(np.float32)[0]
        x = float(x32)
        r = np.format_float_positional(x32, unique=True, trim='-') if np.isfinite(x32) else repr(x)
    if x != x:
        return 'NaN'
    if x in (float('inf'), float('-inf')):
        return 'inf' if x > 0 else '-inf'
    d = Decimal(r)
    sign = '-' if (bits >> (63 if ty == 'f64' else 31)) else ''
    d = abs(d)
    txt = format(d, 'f')
    if '.' in txt:
        txt = txt.rstrip('0').rstrip('.')
    if txt == '':
        txt = '0'
    return sign + txt


def render_arguments(ex, fa):
    """list of pieces (byte lists), one per write_str call of core::fmt::write"""
    pieces = []
    if fa.template is None:
        for a in fa.args:
            pieces.append(list(a.v.items()))
        return pieces
    t = fa.template
    if any(not isinstance(b, int) for b in t):
        raise Unsupported('symbolic format template')
    i = 0
    argi = 0
    while i < len(t):
        n = t[i]
        i += 1
        if n == 0:
            break
        if n < 0x80:
            pieces.append(list(t[i:i + n]))
            i += n
            continue
        if n == 0x80:
            ln = t[i] | (t[i + 1] << 8)
            i += 2
            pieces.append(list(t[i:i + ln]))
            i += ln
            continue
        if n == 0xC0:
            arg = fa.args[argi]
            argi += 1
            pieces.extend(render_arg(ex, arg))
            continue
        raise Unsupported(f'format placeholder with flags/width/precision/index (0x{n:02x}): formatted output not modelled')
    return pieces


def render_arg(ex, arg):
    if not isinstance(arg, FmtArg):
        raise Unsupported(f'format argument {arg!r}')
    if arg.kind != 'display':
        raise Unsupported(f'format trait {arg.kind} not modelled')
    v = deref(arg.v)
    if isinstance(v, FmtArguments):
        return render_arguments(ex, v)
    if isinstance(v, (Slice, HVec)):
        return [list(as_slice(v).items())]
    if isinstance(v, FloatVal):
        return render_float(ex, v)
    if isinstance(v, bool):
        return [list(b'true' if v else b'false')]
    if isinstance(v, int) or is_sym(v):
        ty = arg.ty
        if int_info(ty) is None or ty in ('bool',):
            if z3.is_bool(v):
                return [list(b'true')] if ex.truth(v) else [list(b'false')]
            raise Unsupported(f'Display of integer with unknown type {ty!r}')
        if ty == 'char':
            if isinstance(v, int):
                return [list(chr(v).encode('utf-8'))]
            raise Unsupported('Display of symbolic char')
        return render_int(ex, v, ty)
    if isinstance(v, Adt) and v.ty == 'Error':
        # impl Display for Error: write!(f, "{}", Into::<&str>::into(*self))
        f = ex.impl_index.get('fmt') if ex.impl_index else None
        raise Unsupported('Display of Error inside a format string')
    raise Unsupported(f'Display of {v!r}')


@native(r'^<(heapless::)?(vec::|string::)?(Vec<u8, .*>|String<.*>) as (core::)?fmt::Write>::write_fmt$|^(core::)?fmt::Write::write_fmt$', 'fmt::Write::write_fmt for heapless::Vec<u8,N> / String<N>')
def n_fmt_write_fmt(ex, callee, a, env):
    w = deref(a[0])
    fa = a[1]
    if not isinstance(w, HVec):
        raise Unsupported(f'fmt::Write::write_fmt on {w!r}')
    for piece in render_arguments(ex, fa):
        for b in piece:
            _token_len(b)
        if len(w.items) + len(piece) > w.cap:
            return Err(Adt('fmt::Error', None, []))
        w.items.extend(piece)
    return Ok(UNIT)


@native(r'^<(heapless::)?(vec::|string::)?(Vec<u8, .*>|String<.*>) as (core::)?fmt::Write>::write_(str|char)$', 'fmt::Write::write_str for heapless::Vec<u8,N> / String<N>')
def n_fmt_write_str(ex, callee, a, env):
    w = deref(a[0])
    if callee.endswith('write_char'):
        c = a[1]
        if not isinstance(c, int) or c > 0x7F:
            raise Unsupported('fmt::Write::write_char with a symbolic or non-ASCII char')
        if len(w.items) + 1 > w.cap:
            return Err(Adt('fmt::Error', None, []))
        w.items.append(c)
        return Ok(UNIT)
    sl = as_slice(a[1])
    if len(w.items) + sl.len > w.cap:
        return Err(Adt('fmt::Error', None, []))
    w.items.extend(sl.items())
    return Ok(UNIT)


@native(r'^(core::)?(mem::)?(swap|replace|take)$', 'mem::swap/replace')
def n_mem(ex, callee, a, env):
    if callee.endswith('swap'):
        x, y = a[0].get(), a[1].get()
        a[0].set(y)
        a[1].set(x)
        return UNIT
    if callee.endswith('replace'):
        old = a[0].get()
        a[0].set(a[1])
        return old
    raise Unsupported(callee)


@native(r'^(core::)?ptr::eq$|^ptr::eq::<.*>$', 'ptr::eq')
def n_ptr_eq(ex, callee, a, env):
    x, y = a
    if isinstance(x, Ref) and isinstance(y, Ref):
        return x.c is y.c and x.k == y.k
    return x is y


@native(r'^(core::)?(panicking::)?(panic|panic_fmt|panic_const|unreachable_display|assert_failed|panic_explicit|panic_nounwind).*$|^core::panicking::', 'core::panicking::*')
def n_panic(ex, callee, a, env):
    raise Panic('explicit panic: ' + callee[:60])


@native(r'(unwrap_failed|expect_failed)$', 'unwrap_failed')
def n_unwrap_failed(ex, callee, a, env):
    raise Panic('unwrap/expect failed')


@native(r'^(core::)?(hint::)?(black_box|must_use)$|^(core::)?convert::identity$', 'identity')
def n_identity(ex, callee, a, env):
    return a[0]


@native(r'^<.* as (Deref|DerefMut|AsRef<.*>|AsMut<.*>|Borrow<.*>)>::(deref|deref_mut|as_ref|as_mut|borrow)$', 'Deref::deref')
def n_deref(ex, callee, a, env):
    v = deref(a[0])
    if isinstance(v, HVec):
        return Slice(v.items, 0, len(v.items), v.is_str)
    if isinstance(v, (Slice,)):
        return v
    if isinstance(v, list):
        return Slice(v, 0, len(v))
    if isinstance(v, Adt) and v.ty == 'Pin':
        return v.f[0]
    raise Unsupported('deref of ' + repr(v))


@native(r'^<.* as Default>::default$', 'Default::default')
def n_default(ex, callee, a, env):
    m = re.match(r'^<(.*) as Default>::default$', subst_env(callee, env))
    ty = norm_type(m.group(1))
    ii = int_info(ty)
    if ii:
        return False if ty == 'bool' else 0
    pt = parse_type(ty)
    if pt[0] == 'Option':
        return NONE()
    if pt[0] == 'Deque':
        return n_deque_new(ex, 'Deque::<' + ty[6:-1] + '>::new', a, env)
    if pt[0] == 'Vec':
        return HVec(int(type_str(pt[1][-1])))
    if ex.impl_index is None:
        ex.build_impl_index()
    for f in ex.impl_index.get('default', []):      # a derived / written impl in the loaded crates
        if f.params:
            continue
        if norm_type(f.ret) == ty:
            return ex.call_fn(f, [], None)
        b = {}
        if unify(parse_type(norm_type(f.ret)), pt, b) and b:
            return ex.call_fn(f, [], Env(b))
    raise Unsupported('Default for ' + ty)


# ----------------------------------------------------------------------------- more iterator adaptors (slice iterators)
@native(r'as (DoubleEndedIterator|Iterator|ExactSizeIterator)>::rposition$', 'Iterator::rposition')
def n_rposition(ex, callee, a, env):
    it, f = deref(a[0]), a[1]
    i = it.sl.len
    end = it.sl.len
    while end > it.pos:
        end -= 1
        r = Ref(it.sl.buf, it.sl.start + end)
        if ex.truth(ex.call_value(f, [r])):
            it.sl = Slice(it.sl.buf, it.sl.start, end, it.sl.is_str)
            return Some(end - it.pos)
    it.sl = Slice(it.sl.buf, it.sl.start, it.pos, it.sl.is_str)
    return NONE()


@native(r'as Iterator>::(any|all)$', 'Iterator::any/all')
def n_any_all(ex, callee, a, env):
    it, f = deref(a[0]), a[1]
    want_any = callee.endswith('any')
    while it.pos < it.sl.len:
        r = Ref(it.sl.buf, it.sl.start + it.pos)
        i = it.pos
        it.pos += 1
        t = ex.truth(ex.call_value(f, [Tup([i, r]) if it.enum else r]))
        if want_any and t:
            return True
        if not want_any and not t:
            return False
    return not want_any


@native(r'as Iterator>::find$', 'Iterator::find')
def n_find(ex, callee, a, env):
    it, f = deref(a[0]), a[1]
    while it.pos < it.sl.len:
        r = Ref(it.sl.buf, it.sl.start + it.pos)
        it.pos += 1
        if ex.truth(ex.call_value(f, [Ref([r], 0)])):
            return Some(r)
    return NONE()


@native(r'as Iterator>::count$|as ExactSizeIterator>::len$', 'Iterator::count')
def n_count(ex, callee, a, env):
    it = deref(a[0])
    return it.sl.len - it.pos


@native(r'as Iterator>::last$', 'Iterator::last')
def n_iter_last(ex, callee, a, env):
    it = deref(a[0])
    if it.pos >= it.sl.len:
        return NONE()
    return Some(Ref(it.sl.buf, it.sl.start + it.sl.len - 1))


@native(r'as DoubleEndedIterator>::next_back$', 'DoubleEndedIterator::next_back')
def n_next_back(ex, callee, a, env):
    it = deref(a[0])
    if it.pos >= it.sl.len:
        return NONE()
    r = Ref(it.sl.buf, it.sl.start + it.sl.len - 1)
    it.sl = Slice(it.sl.buf, it.sl.start, it.sl.len - 1, it.sl.is_str)
    return Some(r)


@native(r'^(core::)?slice::<impl \[.*\]>::(split_first|split_last)$', 'slice::split_first/last')
def n_split_first(ex, callee, a, env):
    sl = as_slice(a[0])
    if sl.len == 0:
        return NONE()
    if callee.endswith('split_first'):
        return Some(Tup([Ref(sl.buf, sl.start), Slice(sl.buf, sl.start + 1, sl.len - 1, sl.is_str)]))
    return Some(Tup([Ref(sl.buf, sl.start + sl.len - 1), Slice(sl.buf, sl.start, sl.len - 1, sl.is_str)]))


@native(r'^(core::)?slice::<impl \[.*\]>::(ends_with)$', 'slice::ends_with')
def n_ends_with(ex, callee, a, env):
    x, y = as_slice(a[0]), as_slice(a[1])
    if y.len > x.len:
        return False
    return _all_eq(x.items()[x.len - y.len:], y.items())


@native(r'^(core::)?slice::<impl \[.*\]>::(iter_mut|as_ptr|as_mut_ptr)$', 'slice::iter_mut')
def n_iter_mut(ex, callee, a, env):
    if callee.endswith('iter_mut'):
        return Iter(as_slice(a[0]))
    raise Unsupported('raw pointer to slice')


# ----------------------------------------------------------------------------- str::chars / char helpers
class CharsIter:
    __slots__ = ('sl', 'pos')

    def __init__(s, sl):
        s.sl, s.pos = sl, 0


@native(r'^(core::)?str::<impl str>::chars$|^str::chars$', 'str::chars')
def n_chars(ex, callee, a, env):
    return CharsIter(as_slice(a[0]))


def _z32(b):
    return b if isinstance(b, int) else z3.ZeroExt(24, b)


@native(r'^<(core::)?(str::)?(iter::)?Chars<.*> as Iterator>::next$|^<Chars<.*> as Iterator>::next$', 'Chars::next')
def n_chars_next(ex, callee, a, env):
    it = deref(a[0])
    items = it.sl.items()
    if it.pos >= len(items):
        return NONE()
    T = ex.truth
    b0 = items[it.pos]
    if T(in_range(b0, 0, 0x7F)):
        it.pos += 1
        return Some(_z32(b0))
    # a &str is valid UTF-8 by construction: decode by the lead byte
    def cont(k):
        return _z32(items[it.pos + k]) & 0x3F
    if T(in_range(b0, 0xC0, 0xDF)):
        c = ((_z32(b0) & 0x1F) << 6) | cont(1)
        it.pos += 2
        return Some(c)
    if T(in_range(b0, 0xE0, 0xEF)):
        c = ((_z32(b0) & 0x0F) << 12) | (cont(1) << 6) | cont(2)
        it.pos += 3
        return Some(c)
    if it.pos + 3 >= len(items):
        raise Unsupported('str::chars on bytes that are not valid UTF-8 (a &str is valid by construction)')
    c = ((_z32(b0) & 0x07) << 18) | (cont(1) << 12) | (cont(2) << 6) | cont(3)
    it.pos += 4
    return Some(c)


@native(r'^(core::)?char::methods::<impl char>::len_utf8$|^char::len_utf8$', 'char::len_utf8')
def n_len_utf8(ex, callee, a, env):
    c = a[0]
    T = ex.truth
    if isinstance(c, int):
        return 1 if c < 0x80 else 2 if c < 0x800 else 3 if c < 0x10000 else 4
    if T(z3.ULT(c, 0x80)):
        return 1
    if T(z3.ULT(c, 0x800)):
        return 2
    if T(z3.ULT(c, 0x10000)):
        return 3
    return 4


@native(r'^(core::)?char::methods::<impl char>::encode_utf8$|^char::encode_utf8$', 'char::encode_utf8')
def n_encode_utf8(ex, callee, a, env):
    c, dst = a[0], as_slice(a[1])
    n = n_len_utf8(ex, callee, [c], env)
    if n > dst.len:
        raise Panic('encode_utf8: buffer too small')

    def byte(x):
        return (x & 0xFF) if isinstance(x, int) else z3.Extract(7, 0, x)
    if n == 1:
        bs = [byte(c)]
    elif n == 2:
        bs = [byte((c >> 6) | 0xC0), byte((c & 0x3F) | 0x80)]
    elif n == 3:
        bs = [byte((c >> 12) | 0xE0), byte(((c >> 6) & 0x3F) | 0x80), byte((c & 0x3F) | 0x80)]
    else:
        bs = [byte((c >> 18) | 0xF0), byte(((c >> 12) & 0x3F) | 0x80), byte(((c >> 6) & 0x3F) | 0x80), byte((c & 0x3F) | 0x80)]
    if not isinstance(c, int):
        bs = [z3.simplify(x) if not isinstance(x, int) else x for x in bs]
    for i, x in enumerate(bs):
        dst.buf[dst.start + i] = x
    return Slice(dst.buf, dst.start, n, True)


@native(r'^(core::)?str::<impl str>::(bytes)$|^str::bytes$', 'str::bytes')
def n_str_bytes(ex, callee, a, env):
    it = Iter(as_slice(a[0]))
    it.enum = False
    it.by_value = True
    return it


# ----------------------------------------------------------------------------- structural equality (derived PartialEq on core types)
def values_equal(ex, x, y):
    """derived-PartialEq semantics on engine values; returns bool or z3 Bool"""
    x, y = deref(x), deref(y)
    if isinstance(x, Adt) and isinstance(y, Adt):
        if x.ty != y.ty or x.variant != y.variant or len(x.f) != len(y.f):
            return False
        return And(*[values_equal(ex, p, q) for p, q in zip(x.f, y.f)])
    if isinstance(x, Tup) and isinstance(y, Tup):
        if len(x.f) != len(y.f):
            return False
        return And(*[values_equal(ex, p, q) for p, q in zip(x.f, y.f)])
    if isinstance(x, (Slice, HVec, list)) and isinstance(y, (Slice, HVec, list)):
        a, b = as_slice(x), as_slice(y)
        if a.len != b.len:
            return False
        return And(*[values_equal(ex, p, q) for p, q in zip(a.items(), b.items())])
    if isinstance(x, (int, bool)) and isinstance(y, (int, bool)):
        return x == y
    if is_sym(x) or is_sym(y):
        return _eq(x, y) if not (is_sym(x) and is_sym(y)) else x == y
    raise Unsupported(f'equality of {x!r} and {y!r}')


@native(r'^<(Option|core::option::Option|Result|core::result::Result|\(.*\)|&.*)(<.*>)? as PartialEq(<.*>)?>::(eq|ne)$', 'derived PartialEq::eq')
def n_struct_eq(ex, callee, a, env):
    r = values_equal(ex, a[0], a[1])
    return Not(r) if callee.endswith('::ne') else r


# ----------------------------------------------------------------------------- str searching
def _pattern_bytes(p):
    p = deref(p)
    if isinstance(p, (Slice, HVec, list)):
        return list(as_slice(p).items())
    if isinstance(p, int):
        if p >= 128:
            return list(chr(p).encode('utf-8'))
        return [p]
    raise Unsupported(f'search pattern {p!r}')


def _find(ex, hay, pat, reverse=False):
    n, m = len(hay), len(pat)
    rng = range(n - m, -1, -1) if reverse else range(0, n - m + 1)
    for i in rng:
        if ex.truth(_all_eq(hay[i:i + m], pat)):
            return i
    return None


@native(r'^(core::)?str::<impl str>::(find|rfind)$|^str::(find|rfind)$', 'str::find')
def n_str_find(ex, callee, a, env):
    hay = list(as_slice(a[0]).items())
    i = _find(ex, hay, _pattern_bytes(a[1]), reverse='rfind' in callee)
    return NONE() if i is None else Some(i)


@native(r'^(core::)?str::<impl str>::contains$|^str::contains$', 'str::contains')
def n_str_contains(ex, callee, a, env):
    hay = list(as_slice(a[0]).items())
    return _find(ex, hay, _pattern_bytes(a[1])) is not None


@native(r'^(core::)?str::<impl str>::(starts_with|ends_with)$|^str::(starts_with|ends_with)$', 'str::starts_with')
def n_str_starts_with(ex, callee, a, env):
    hay = list(as_slice(a[0]).items())
    pat = _pattern_bytes(a[1])
    if len(pat) > len(hay):
        return False
    if 'starts_with' in callee:
        return _all_eq(hay[:len(pat)], pat)
    return _all_eq(hay[len(hay) - len(pat):], pat)


@native(r'^(core::)?str::<impl str>::split_at$|^str::split_at$', 'str::split_at')
def n_str_split_at(ex, callee, a, env):
    sl, i = as_slice(a[0]), a[1]
    if not isinstance(i, int):
        i = ex.concretize(i, 0, 64)
    if i > sl.len:
        raise Panic('str::split_at: mid > len')
    return Tup([Slice(sl.buf, sl.start, i, True), Slice(sl.buf, sl.start + i, sl.len - i, True)])


@native(r'^(core::)?str::<impl str>::(trim|trim_start|trim_end)$|^str::(trim|trim_start|trim_end)$', 'str::trim')
def n_str_trim(ex, callee, a, env):
    sl = as_slice(a[0])
    items = list(sl.items())
    lo, hi = 0, len(items)
    T = ex.truth

    def ws(b):
        return Or(_eq(b, 32), in_range(b, 9, 13))
    if not callee.endswith('trim_end'):
        while lo < hi and T(ws(items[lo])):
            lo += 1
    if not callee.endswith('trim_start'):
        while hi > lo and T(ws(items[hi - 1])):
            hi -= 1
    return Slice(sl.buf, sl.start + lo, hi - lo, True)


# ----------------------------------------------------------------------------- std feature build only: std::vec::Vec<u8> / String as writers
def _heap(ex, callee):
    """these models stand for heap-allocating functions: legitimate only in the MIR of the std-feature build"""
    if not getattr(ex, 'std_world', False):
        ex.alloc_calls.append('alloc::' + callee.split('<')[0])
        raise Unsupported(f'call to alloc::{callee} (heap allocation) in the default-feature build')


@native(r'^(alloc::fmt::|std::fmt::)?format$', 'alloc::fmt::format (std feature)')
def n_format(ex, callee, a, env):
    _heap(ex, 'fmt::format')
    h = HVec(10 ** 9, True)
    h.std = True
    for piece in render_arguments(ex, a[0]):
        h.items.extend(piece)
    return h


@native(r'^(std|alloc)::string::String::(as_bytes|as_str)$|^String::(as_bytes|as_str)$', 'String::as_bytes (std feature)')
def n_string_as_bytes(ex, callee, a, env):
    v = deref(a[0])
    return Slice(v.items, 0, len(v.items), callee.endswith('as_str'))


@native(r'^(std|alloc)::vec::Vec(::<.*>)?::extend_from_slice$', 'std Vec::extend_from_slice (std feature)')
def n_stdvec_extend(ex, callee, a, env):
    _heap(ex, 'vec::Vec::extend_from_slice')
    v, sl = deref(a[0]), as_slice(a[1])
    v.items.extend(sl.items())
    return UNIT


@native(r'^(std|alloc)::vec::Vec(::<.*>)?::push$', 'std Vec::push (std feature)')
def n_stdvec_push(ex, callee, a, env):
    _heap(ex, 'vec::Vec::push')
    deref(a[0]).items.append(a[1])
    return UNIT


# ----------------------------------------------------------------------------- more float helpers (sign manipulation keeps the bit pattern symbolic)
def _fbits(f):
    if not isinstance(f, FloatVal) or f.bits is None:
        raise Unsupported(f'float bit manipulation of {f!r}')
    return f.bits, (32 if f.ty == 'f32' else 64)


@native(r'(f32|f64)(::<.*>)?::abs$', 'float::abs')
def n_fabs(ex, callee, a, env):
    f = deref(a[0])
    bits, w = _fbits(f)
    m = (1 << (w - 1)) - 1
    r = FloatVal(bits & m, f.ty, f.src)
    r.ops = list(f.ops or []) + ['abs']
    return r


@native(r'^<(f32|f64) as (core::ops::|std::ops::)?Neg>::neg$', 'float::neg')
def n_fneg(ex, callee, a, env):
    f = deref(a[0])
    bits, w = _fbits(f)
    r = FloatVal(bits ^ (1 << (w - 1)), f.ty, f.src)
    r.ops = list(f.ops or []) + ['neg']
    return r


@native(r'(f32|f64)(::<.*>)?::is_sign_positive$', 'float::is_sign_positive')
def n_is_sign_pos(ex, callee, a, env):
    return Not(float_class(ex, deref(a[0]), 'neg'))


@native(r'(f32|f64)(::<.*>)?::to_bits$', 'float::to_bits')
def n_to_bits(ex, callee, a, env):
    return _fbits(deref(a[0]))[0]


@native(r'(f32|f64)(::<.*>)?::from_bits$', 'float::from_bits')
def n_from_bits(ex, callee, a, env):
    m = re.search(r'(f32|f64)', callee)
    return FloatVal(a[0], m.group(1))


@native(r'(f32|f64)(::<.*>)?::copysign$', 'float::copysign')
def n_copysign(ex, callee, a, env):
    f, g = deref(a[0]), deref(a[1])
    fb, w = _fbits(f)
    gb, _ = _fbits(g)
    m = (1 << (w - 1)) - 1
    r = FloatVal((fb & m) | (gb & (1 << (w - 1))), f.ty, f.src)
    r.ops = list(f.ops or []) + ['copysign']
    return r


# ----------------------------------------------------------------------------- more str / char / integer helpers met in refactorings
@native(r'^(core::)?str::<impl str>::(trim_start_matches|trim_end_matches|trim_matches)(::<char>)?$', 'str::trim_*_matches::<char> (ASCII pattern)')
def n_str_trim_matches(ex, callee, a, env):
    sl = as_slice(a[0])
    c = a[1]
    if not isinstance(c, int) or c > 0x7F:
        raise Unsupported('trim_matches with a symbolic or non-ASCII pattern')
    items = list(sl.items())
    lo, hi = 0, len(items)
    T = ex.truth
    if 'trim_end_matches' not in callee:
        while lo < hi and T(_eq(items[lo], c)):
            lo += 1
    if 'trim_start_matches' not in callee:
        while hi > lo and T(_eq(items[hi - 1], c)):
            hi -= 1
    return Slice(sl.buf, sl.start + lo, hi - lo, True)


@native(r'^(core::)?char::methods::<impl char>::(to_digit|is_digit)$', 'char::to_digit')
def n_char_to_digit(ex, callee, a, env):
    c, radix = a[0], a[1]
    if not isinstance(radix, int):
        radix = ex.concretize(radix, 0, 64)
    if not 2 <= radix <= 36:
        raise Panic('to_digit: radix is too high (maximum 36)')
    T = ex.truth
    d = None
    if isinstance(c, int):
        d = c - 48 if 48 <= c <= 57 else c - 87 if 97 <= c <= 122 else c - 55 if 65 <= c <= 90 else None
        if d is not None and d >= radix:
            d = None
    else:
        w = c.size()
        if T(And(z3.UGE(c, 48), z3.ULE(c, 57))):
            d = c - z3.BitVecVal(48, w)
        elif radix > 10 and T(And(z3.UGE(c, 97), z3.ULE(c, 122))):
            d = c - z3.BitVecVal(87, w)
        elif radix > 10 and T(And(z3.UGE(c, 65), z3.ULE(c, 90))):
            d = c - z3.BitVecVal(55, w)
        if d is not None and not T(z3.ULT(d, radix)):
            d = None
    if callee.endswith('is_digit'):
        return d is not None
    if d is None:
        return NONE()
    if not isinstance(d, int) and d.size() != 32:
        d = z3.ZeroExt(32 - d.size(), d)
    return Some(d)


@native(r'^(core::)?num::<impl (u8|u16|u32|u64|usize)>::(div_ceil|next_multiple_of)$', 'uN::div_ceil')
def n_div_ceil(ex, callee, a, env):
    x, y = deref(a[0]), deref(a[1])
    for v in (x, y):
        if not (isinstance(v, int) or is_sym(v)):
            raise Unsupported(f'div_ceil operand {v!r}')
    x, y = ex.concretize(x, 0, 64), ex.concretize(y, 0, 64)      # forks over the feasible values (small ranges only)
    if y == 0:
        raise Panic('attempt to divide by zero')
    q = -(-x // y)
    return q if callee.endswith('div_ceil') else q * y


@native(r'^<([iu](?:8|16|32|64|128|size)) as (TryFrom|TryInto)<([iu](?:8|16|32|64|128|size))>>::(try_from|try_into)$', 'integer TryFrom / TryInto')
def n_int_try_from(ex, callee, a, env):
    m = re.match(r'^<([iu](?:8|16|32|64|128|size)) as (TryFrom|TryInto)<([iu](?:8|16|32|64|128|size))>>', callee)
    dst, src = (m.group(1), m.group(3)) if m.group(2) == 'TryFrom' else (m.group(3), m.group(1))
    (ds, dw), (ss, sw) = int_info(dst), int_info(src)
    dmin, dmax = (-(1 << (dw - 1)), (1 << (dw - 1)) - 1) if ds else (0, (1 << dw) - 1)
    smin, smax = (-(1 << (sw - 1)), (1 << (sw - 1)) - 1) if ss else (0, (1 << sw) - 1)
    v = deref(a[0])
    err = Err(Adt('TryFromIntError', None, [UNIT]))
    if isinstance(v, bool):
        v = int(v)
    if isinstance(v, int):
        return Ok(v) if dmin <= v <= dmax else err
    if not z3.is_bv(v):
        raise Unsupported(f'integer conversion of {v!r}')
    if v.size() < sw:
        v = z3.SignExt(sw - v.size(), v) if ss else z3.ZeroExt(sw - v.size(), v)
    elif v.size() > sw:
        v = z3.Extract(sw - 1, 0, v)
    conds = []
    if dmin > smin:
        conds.append((v >= bvval(dmin & ((1 << sw) - 1), sw)) if ss else z3.UGE(v, bvval(max(dmin, 0), sw)))
    if dmax < smax:
        conds.append((v <= bvval(dmax, sw)) if ss else z3.ULE(v, bvval(dmax, sw)))
    if conds and not ex.truth(And(*conds) if len(conds) > 1 else conds[0]):
        return err
    if dw > sw:
        r = z3.SignExt(dw - sw, v) if ss else z3.ZeroExt(dw - sw, v)
    elif dw < sw:
        r = z3.Extract(dw - 1, 0, v)
    else:
        r = v
    return Ok(r)


# ----------------------------------------------------------------------------- more Option / Result combinators met in refactorings
def _truthy(ex, v):
    """a bool returned by a closure: concrete, or symbolic (forks)"""
    v = deref(v)
    if isinstance(v, bool):
        return v
    if isinstance(v, int):
        return v != 0
    return ex.truth(v if z3.is_bool(v) else v != 0)


@native(r'Option::is_some_and$', 'Option::is_some_and')
def n_is_some_and(ex, callee, a, env):
    r = deref(a[0])
    return r.variant == 'Some' and _truthy(ex, ex.call_value(a[1], [r.f[0]]))


@native(r'Option::is_none_or$', 'Option::is_none_or')
def n_is_none_or(ex, callee, a, env):
    r = deref(a[0])
    return r.variant == 'None' or _truthy(ex, ex.call_value(a[1], [r.f[0]]))


@native(r'Result::is_ok_and$', 'Result::is_ok_and')
def n_is_ok_and(ex, callee, a, env):
    r = deref(a[0])
    return r.variant == 'Ok' and _truthy(ex, ex.call_value(a[1], [r.f[0]]))


@native(r'Result::is_err_and$', 'Result::is_err_and')
def n_is_err_and(ex, callee, a, env):
    r = deref(a[0])
    return r.variant == 'Err' and _truthy(ex, ex.call_value(a[1], [r.f[0]]))


@native(r'(Option|Result)::map_or$', 'map_or')
def n_map_or(ex, callee, a, env):
    r = deref(a[0])
    return ex.call_value(a[2], [r.f[0]]) if r.variant in ('Some', 'Ok') else a[1]


@native(r'(Option|Result)::map_or_else$', 'map_or_else')
def n_map_or_else(ex, callee, a, env):
    r = deref(a[0])
    if r.variant in ('Some', 'Ok'):
        return ex.call_value(a[2], [r.f[0]])
    return ex.call_value(a[1], [r.f[0]] if r.ty == 'Result' else [])


@native(r'Option::filter$', 'Option::filter')
def n_opt_filter(ex, callee, a, env):
    r = deref(a[0])
    if r.variant == 'Some' and _truthy(ex, ex.call_value(a[1], [Ref([r.f[0]], 0)])):
        return r
    return NONE()


@native(r'Option::and$', 'Option::and')
def n_opt_and(ex, callee, a, env):
    return a[1] if deref(a[0]).variant == 'Some' else NONE()


@native(r'Option::xor$', 'Option::xor')
def n_opt_xor(ex, callee, a, env):
    x, y = deref(a[0]), deref(a[1])
    if (x.variant == 'Some') != (y.variant == 'Some'):
        return x if x.variant == 'Some' else y
    return NONE()


@native(r'Option::zip$', 'Option::zip')
def n_opt_zip(ex, callee, a, env):
    x, y = deref(a[0]), deref(a[1])
    return Some(Tup([x.f[0], y.f[0]])) if x.variant == 'Some' and y.variant == 'Some' else NONE()


@native(r'Option::(inspect)$|Result::(inspect|inspect_err)$', 'inspect')
def n_inspect(ex, callee, a, env):
    r = deref(a[0])
    want = 'Err' if callee.endswith('inspect_err') else ('Some' if r.ty == 'Option' else 'Ok')
    if r.variant == want:
        ex.call_value(a[1], [Ref([r.f[0]], 0)])
    return a[0]


@native(r'^bool::then_some$|<impl bool>::then_some$', 'bool::then_some')
def n_then_some(ex, callee, a, env):
    return Some(a[1]) if _truthy(ex, a[0]) else NONE()


@native(r'^bool::then$|<impl bool>::then$', 'bool::then')
def n_then(ex, callee, a, env):
    return Some(ex.call_value(a[1], [])) if _truthy(ex, a[0]) else NONE()


@native(r'^(core::)?(slice::ascii::<impl \[u8\]>|str::<impl str>)::(trim_ascii_start|trim_ascii_end|trim_ascii)$', 'trim_ascii*')
def n_trim_ascii(ex, callee, a, env):
    sl = as_slice(a[0])
    items = list(sl.items())
    lo, hi = 0, len(items)
    T = ex.truth

    def ws(b):      # u8::is_ascii_whitespace: SP, HT, LF, FF, CR
        return Or(_eq(b, 32), _eq(b, 9), _eq(b, 10), _eq(b, 12), _eq(b, 13))
    if not callee.endswith('trim_ascii_end'):
        while lo < hi and T(ws(items[lo])):
            lo += 1
    if not callee.endswith('trim_ascii_start'):
        while hi > lo and T(ws(items[hi - 1])):
            hi -= 1
    return Slice(sl.buf, sl.start + lo, hi - lo, sl.is_str)


# ----------------------------------------------------------------------------- operator traits on primitive integers (also through references)
_OPS = {'add': 'Add', 'sub': 'Sub', 'mul': 'Mul', 'div': 'Div', 'rem': 'Rem', 'bitand': 'BitAnd', 'bitor': 'BitOr', 'bitxor': 'BitXor', 'shl': 'Shl', 'shr': 'Shr'}


@native(r'^<&?(?:\'\w+ )?([iu](?:8|16|32|64|128|size)|bool) as (Add|Sub|Mul|Div|Rem|BitAnd|BitOr|BitXor|Shl|Shr)(<.*>)?>::(add|sub|mul|div|rem|bitand|bitor|bitxor|shl|shr)$', 'integer operator traits')
def n_int_op(ex, callee, a, env):
    from .engine import int_arith
    m = re.match(r'^<&?(?:\'\w+ )?([iu](?:8|16|32|64|128|size)|bool) as', callee)
    ty = m.group(1)
    base = _OPS[callee.rsplit('::', 1)[1]]
    x, y = deref(a[0]), deref(a[1])
    if ty == 'bool':
        return int_arith(ex, base, x, y, False, None)
    signed, width = int_info(ty)
    if base in ('Add', 'Sub', 'Mul'):
        r = int_arith(ex, base, x, y, signed, width, True)
        ov = r.f[1]
        if (ov is True) or (is_sym(ov) and ex.truth(ov)):
            raise Panic(f'attempt to {callee.rsplit("::", 1)[1]} with overflow')
        return r.f[0]
    if base in ('Shl', 'Shr'):
        if isinstance(y, int) and y >= width:
            raise Panic('attempt to shift with overflow')
    return int_arith(ex, base, x, y, signed, width)


@native(r'^<&?(?:\'\w+ )?([iu](?:8|16|32|64|128|size)|bool) as Not>::not$', 'integer Not')
def n_int_not(ex, callee, a, env):
    m = re.match(r'^<&?(?:\'\w+ )?([iu](?:8|16|32|64|128|size)|bool) as', callee)
    v = deref(a[0])
    if m.group(1) == 'bool':
        return (not v) if isinstance(v, bool) else Not(v)
    signed, width = int_info(m.group(1))
    if isinstance(v, int):
        return mask(~v, signed, width)
    return ~v


# ----------------------------------------------------------------------------- str::split_once / rsplit_once, integer pow
def _char_set(p):
    p = deref(p)
    if isinstance(p, int):
        return [p]
    if isinstance(p, (list, Slice, HVec)):
        items = list(as_slice(p).items())
        if all(isinstance(c, int) for c in items):
            return items
    return None


@native(r'^(core::)?str::<impl str>::(split_once|rsplit_once)(::<.*>)?$', 'str::split_once')
def n_split_once(ex, callee, a, env):
    sl = as_slice(a[0])
    items = list(sl.items())
    T = ex.truth
    chars = _char_set(a[1]) if not (isinstance(deref(a[1]), Slice) and deref(a[1]).is_str) else None
    rev = 'rsplit_once' in callee
    if chars is not None and all(c < 0x80 for c in chars):
        idx = range(len(items) - 1, -1, -1) if rev else range(len(items))
        for i in idx:
            if T(Or(*[_eq(items[i], c) for c in chars])):
                return Some(Tup([Slice(sl.buf, sl.start, i, True), Slice(sl.buf, sl.start + i + 1, len(items) - i - 1, True)]))
        return NONE()
    pat = _pattern_bytes(a[1])
    n = len(pat)
    if n == 0:
        raise Unsupported('split_once with an empty pattern')
    starts = range(len(items) - n, -1, -1) if rev else range(0, len(items) - n + 1)
    for i in starts:
        if T(_all_eq(items[i:i + n], pat)):
            return Some(Tup([Slice(sl.buf, sl.start, i, True), Slice(sl.buf, sl.start + i + n, len(items) - i - n, True)]))
    return NONE()


@native(r'(?:^|::)(?:num::<impl )?([iu](?:8|16|32|64|128|size))>?::(pow|checked_pow|wrapping_pow|saturating_pow)$', 'int::pow')
def n_int_pow(ex, callee, a, env):
    m = re.search(r'([iu](?:8|16|32|64|128|size))>?::(\w*pow)$', callee)
    signed, width = int_info(m.group(1))
    op = m.group(2)
    base, e = deref(a[0]), deref(a[1])
    lo, hi = (-(1 << (width - 1)), (1 << (width - 1)) - 1) if signed else (0, (1 << width) - 1)
    if is_sym(e) and isinstance(base, int) and abs(base) >= 2:
        # every exponent above the last one that fits behaves alike (overflow): one class instead of a concretisation range
        emax = 0
        while lo <= base ** (emax + 1) <= hi:
            emax += 1
        if ex.truth(z3.UGT(e, emax)):
            if op == 'pow':
                raise Panic('attempt to multiply with overflow')
            if op == 'checked_pow':
                return NONE()
            raise Unsupported(f'{op} with a large symbolic exponent')
        e = ex.concretize(e, 0, emax)
    else:
        e = ex.concretize(e, 0, 130)
    if isinstance(base, int):
        r = base ** e
        fits = lo <= r <= hi
        if op == 'pow':
            if not fits:
                raise Panic('attempt to multiply with overflow')
            return r
        if op == 'checked_pow':
            return Some(r) if fits else NONE()
        if op == 'saturating_pow':
            return min(max(r, lo), hi)
        return mask(r, signed, width)
    # symbolic base: repeated checked multiplication
    from .engine import int_arith
    acc = 1
    for _ in range(e):
        t = int_arith(ex, 'Mul', acc, base, signed, width, True)
        ov = t.f[1]
        if (ov is True) or (is_sym(ov) and ex.truth(ov)):
            if op == 'pow':
                raise Panic('attempt to multiply with overflow')
            if op == 'checked_pow':
                return NONE()
            if op == 'saturating_pow':
                raise Unsupported('saturating_pow overflow on a symbolic base')
        acc = t.f[0]
    return Some(acc) if op == 'checked_pow' else acc


@native(r'^(core::)?str::<impl str>::(strip_suffix|strip_prefix)(::<.*>)?$', 'str::strip_prefix / strip_suffix')
def n_strip_affix(ex, callee, a, env):
    sl = as_slice(a[0])
    pat = _pattern_bytes(a[1])
    items = list(sl.items())
    n = len(pat)
    if n > len(items):
        return NONE()
    if 'strip_suffix' in callee:
        if not ex.truth(_all_eq(items[len(items) - n:], pat)):
            return NONE()
        return Some(Slice(sl.buf, sl.start, sl.len - n, True))
    if not ex.truth(_all_eq(items[:n], pat)):
        return NONE()
    return Some(Slice(sl.buf, sl.start + n, sl.len - n, True))


@native(r'(f32|f64)(::<.*>)?::(is_normal|is_subnormal)$|<impl f(32|64)>::(is_normal|is_subnormal)$', 'float::is_normal / is_subnormal')
def n_is_normal(ex, callee, a, env):
    f = deref(a[0])
    if not isinstance(f, FloatVal):
        raise Unsupported(f'float classification of {f!r}')
    bits = f.bits
    if bits is None and f.src is not None and all(isinstance(b, int) for b in f.src):
        r = parse_float_model(ex, list(f.src), f.ty)
        bits = r.f[0].bits if r.variant == 'Ok' else None
    if bits is None:
        raise Unsupported('is_normal / is_subnormal of a value whose text is symbolic')
    eb, mb = (8, 23) if f.ty == 'f32' else (11, 52)
    sub = callee.endswith('is_subnormal')
    if isinstance(bits, int):
        e = (bits >> mb) & ((1 << eb) - 1)
        m = bits & ((1 << mb) - 1)
        return (e == 0 and m != 0) if sub else (0 < e < (1 << eb) - 1)
    fp = z3.fpBVToFP(bits, z3.Float32() if f.ty == 'f32' else z3.Float64())
    return z3.fpIsSubnormal(fp) if sub else z3.fpIsNormal(fp)


@native(r'^(core::)?slice::<impl \[.*\]>::(split_at_checked|split_at_mut_checked)$|^(core::)?str::<impl str>::split_at_checked$', 'split_at_checked')
def n_split_at_checked(ex, callee, a, env):
    sl, i = as_slice(a[0]), a[1]
    if not isinstance(i, int):
        i = ex.concretize(i, 0, 64)
    if i > sl.len:
        return NONE()
    return Some(Tup([Slice(sl.buf, sl.start, i, sl.is_str), Slice(sl.buf, sl.start + i, sl.len - i, sl.is_str)]))
