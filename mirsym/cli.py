import argparse
import os
import sys

from . import runner


def main():
    ap = argparse.ArgumentParser()
    ap.add_argument('property')
    ap.add_argument('--tier', default=os.environ.get('VERIF_TIER', 'quick'), choices=['quick', 'thorough'])
    ap.add_argument('--replay')
    a = ap.parse_args()
    seed = int(os.environ.get('VERIF_SEED', '0') or 0)
    sys.exit(runner.main(a.property.upper(), a.tier, seed, a.replay))


if __name__ == '__main__':
    main()
