"""Exploration of parser::parse on every byte string of a given length (C12; also the panic/hang monitor of C05a).

Per leaf (one class of byte strings x, |x| = L, characterised by the path condition):
  main = parse(root, start, x)
  for every proper prefix length j (0 < j < L):  pre_j = parse(root, start, x[..j])   (re-executed under the same
      path condition; may split the leaf further)
Obligations (each decided for *all* x of the leaf, because the executions are functions of the path):
  O1  main = Ok(k, ..)        =>  k >= 1 and the returned remainder is x[k..]
  O2  main = Ok(k, R), k < L  =>  pre_k = Ok(k, R)                       (truncation: result determined by x[..k])
  O3  pre_j = Ok(j, R')       =>  main = Ok(j, R')                       (extension: appended bytes change only the remainder)
  O4  pre_j is an error (not Incomplete) and x[j-1] = '\\n'  =>  main is not Ok   (errors on terminated input are final)
  O5  main = Incomplete       =>  some completion x ++ y is accepted with more than L bytes consumed
                                   (searched among a fixed family of completions; none found = undecided, reported)
"""
import z3

from ..engine import Panic, Unsupported, Slice
from .common import sym_bytes, parse_summary, model_bytes, bytes_repr

COMPLETIONS = ([b'\n', b'X\n', b'0\n', b'1\n', b'"\n', b"'\n", b'0"\n', b"0'\n", b':X\n', b'H0\n', b'B0\n', b'Q0\n', b'*R\n', b' 1\n', b'E1\n', b'.0\n']
               + [b'x' * r + b'\n' for r in range(1, 10)]
               + [b'0' * q + b'1x\n' for q in range(0, 9)]
               + [b'1' + b'0' * q + b'1x\n' for q in range(0, 3)]
               + [b'11x\n', b'#10\n'])


def role_of(rule, j, main):
    """what kind of failure this is, independent of the particular bytes (keys the known-findings file)"""
    if rule == 'O4' and main and main[0] == 'ok' and main[2]:
        for kind, st, ln in main[2][4]:
            if st <= j - 1 < st + ln:
                return f'O4:newline-inside-{kind}-payload'
        return 'O4:newline-outside-any-payload'
    return rule


class ParseCheck:
    def __init__(s, world, params):
        s.w = world
        s.ex = world.ex
        s.dev = params['device']
        s.start = params.get('start') or None
        s.L = params['L']
        s.prefixes = params.get('prefixes', True)
        s.completions = params.get('completions', False)
        s.alphabet = params.get('alphabet')
        s.prefix = list(params.get('prefix', '').encode('latin1'))     # concrete bytes in front of the symbolic region
        s.twin = params.get('twin', False)      # vacuity twin: a deliberately wrong oracle that must raise violations

    def body(s):
        ex, w = s.ex, s.w
        x = s.prefix + sym_bytes(ex, s.L, 'b', s.alphabet)
        s.x = x
        L = len(x)
        res = {'viol': []}

        def parse(inp):
            s.cur = inp          # the input being parsed right now: the witness if this call panics or hangs
            return w.parse(s.dev, s.start, inp)
        main = parse_summary(w, s.dev, parse(list(x)), L)
        res['main'] = main
        if main[0] == 'ok' and main[1] < 1:
            res['viol'].append(('O1', 'accepted without consuming a byte', None))
        if s.prefixes:
            for j in range(max(1, len(s.prefix) - 1), L):
                pre = parse_summary(w, s.dev, parse(list(x[:j])), j)
                if s.twin and main[0] == 'ok' and main[1] == j + 1 and pre != main:
                    res['viol'].append(('TWIN', 'wrong oracle: expects the result already one byte early', j))
                if main[0] == 'ok' and main[1] == j and pre != main:
                    res['viol'].append(('O2', f'accepted {main} but its own consumed prefix x[..{j}] gives {pre}', j))
                if pre[0] == 'ok' and pre[1] == j and pre != main:
                    res['viol'].append(('O3', f'x[..{j}] is accepted as {pre} but x gives {main}', j))
                if pre[0] in ('soft', 'fatal') and main[0] == 'ok':
                    if ex.truth(x[j - 1] == 10):
                        res['viol'].append(('O4', f'newline-terminated prefix x[..{j}] is rejected with {pre} but the continuation x is accepted: {main}', j))
        if s.completions and main[0] == 'incomplete':
            found = None
            for y in COMPLETIONS:
                r2 = parse_summary(w, s.dev, parse(list(x) + list(y)), L + len(y))
                if r2[0] == 'ok' and r2[1] > L:
                    found = y
                    break
            res['completion'] = bytes_repr(found) if found is not None else None
        # O4 beyond the length bound: an input that ends with a newline and is rejected with an error (not 'incomplete') has no accepted
        # continuation -- tried with the same completion family
        if s.completions and main[0] in ('soft', 'fatal') and L >= 1 and ex.truth(x[-1] == 10):
            for y in COMPLETIONS:
                r2 = parse_summary(w, s.dev, parse(list(x) + list(y)), L + len(y))
                if r2[0] == 'ok' and r2[1] > L:
                    res['viol'].append(('O4', f'newline-terminated input is rejected with {main} but its continuation by {bytes_repr(y)} is accepted: {r2}', L, list(y)))
                    break
        return res

    def on_leaf(s, out):
        ex = s.ex
        rec = {}
        if out[0] == 'ok':
            r = out[1]
            rec['kind'] = r['main'][0]
            if r['main'][0] == 'ok':
                rec['k'] = r['main'][1]
            if 'completion' in r:
                rec['completion'] = r['completion']
            viol = r['viol']
        else:
            rec['kind'] = out[0]
            viol = [(out[0].upper(), out[1], None)]
        if viol:
            wit = model_bytes(ex.path_model(), s.x if out[0] == 'ok' else getattr(s, 'cur', s.x))
            main = out[1]['main'] if out[0] == 'ok' else None
            rec['violations'] = [{'rule': v[0], 'what': v[1], 'j': v[2], 'input': (bytes(wit) + bytes(v[3] if len(v) > 3 else [])).hex(), 'device': s.dev, 'start': s.start or [],
                                  'role': role_of(v[0], v[2], main)} for v in viol]
        if len(ex.decisions) and (hash(tuple(map(str, ex.decisions))) % 97 == 0):
            rec['sample'] = bytes_repr(model_bytes(ex.path_model(), s.x))
        return rec
