"""C07(a) / C10: Interface::process::<N> executed from MIR with Interface::run replaced by an *uninterpreted
deterministic function of the bytes it is given*.

The stand-in keeps a table keyed by the identity of the stream bytes in its argument; the first time a key is
seen it chooses (forks over) the consumed length 0..=len and a response of 0..1 bytes, and replays the choice
afterwards.  Stream bytes are fully symbolic (process only looks at `== '\\n'`).  Whatever holds here holds for
every `run` that is a function of its input and returns a suffix of it.
"""
import z3

from ..engine import Slice, HVec, NativeFuture, Unsupported, deref, Ok, Err, UNIT
from ..world import ScriptAdapter, EOF_ERR
from ..natives import as_slice
from .common import model_bytes, bytes_repr


class FaultErr:
    """the transport's error value; must come back unchanged (identity)"""
    def __repr__(s):
        return '<transport error E>'


class AbstractProcess:
    def __init__(s, world, params):
        s.w, s.ex = world, world.ex
        s.S, s.N = params['S'], params['N']
        s.mode = params.get('mode', 'equiv')     # 'equiv' (C07a + C10 ordering) | 'fault' (C10 transport errors)
        s.dev = params.get('device', 'T1')
        s.max_out = params.get('max_out', 1)
        s.max_empty = params.get('max_empty', 1)
        s.pending = params.get('pending', 0)
        s.twin = params.get('twin', False)

    # the stand-in for Interface::run
    def standin(s, ex, fn, args, env):
        data = as_slice(args[-2])      # (self, [path,] data, response)
        wr = deref(args[-1])
        key = tuple((b.decl().name() if z3.is_expr(b) else ('c', b)) for b in data.items())
        ent = s.table.get(key)
        if ent is None:
            # a run that is handed data starting with a terminator consumes at least that terminator
            lo = 1 if (data.len > 0 and ex.truth(data.items()[0] == 10)) else 0
            consumed = ex.decide([(c, True) for c in range(lo, data.len + 1)]) if data.len + 1 - lo > 1 else lo
            room = wr.cap - len(wr.items) if isinstance(wr, HVec) else s.max_out
            nout = ex.decide([(c, True) for c in range(0, min(s.max_out, room) + 1)]) if min(s.max_out, room) > 0 else 0
            out = [97 + (len(s.table) % 26)] * nout
            ent = (consumed, out)
            s.table[key] = ent
        consumed, out = ent
        if isinstance(wr, HVec):
            if len(wr.items) + len(out) <= wr.cap:
                wr.items.extend(out)
            s.cur.trace.append(('run', key, consumed, tuple(out), len(wr.items) - len(out)))
        rem = Slice(data.buf, data.start + consumed, data.len - consumed)
        return NativeFuture(rem, pend=1 if s.pending else 0)

    def execute(s, x, **kw):
        dev = s.w.new_device(s.dev)
        ad = ScriptAdapter(list(x), **kw)
        s.cur = ad
        r = s.w.process(dev, s.N, ad)
        return ad, r

    @staticmethod
    def ordering(trace):
        """C10: whatever a run call produced is written (in order, nothing else) and flushed before the transport is asked for more
        input; the response buffer is empty whenever run is called.  Several writes before one flush are fine."""
        owed = []          # response bytes produced by run and not yet written
        unflushed = False
        for t in trace:
            if t[0] == 'run':
                if t[4] != 0:
                    return f'response buffer not empty ({t[4]} bytes) when run is called'
                owed += list(t[3])
            elif t[0] in ('w', 'w!'):
                data = list(t[1])
                if data != owed[:len(data)]:
                    return f'wrote {data} but the pending response bytes are {owed}'
                owed = owed[len(data):]
                unflushed = unflushed or bool(data)
                if t[0] == 'w!':
                    return None
            elif t[0] == 'f':
                unflushed = False
            elif t[0] == 'f!':
                return None
            elif t[0] in ('r', 'r!'):
                if owed:
                    return 'asked the transport for more input before the response was written'
                if unflushed:
                    return 'asked the transport for more input before the written response was flushed'
        return None

    def body(s):
        ex, w = s.ex, s.w
        ex.step_limit = 200_000
        x = [z3.BitVec(f's{i}', 8) for i in range(s.S)]
        s.x = x
        s.table = {}
        w.abstract_run = s.standin
        res = {'viol': []}
        try:
            if s.mode == 'equiv':
                adA, rA = s.execute(x, fork_chunks=True, max_empty=s.max_empty,
                                    pend=[ex.decide([(i, True) for i in range(0, 3 * s.S)])] if s.pending else ())
                s.chosen = list(adA.chosen)
                adB, rB = s.execute(x, tail=1)
                runsA = [t[1:4] for t in adA.trace if t[0] == 'run']
                runsB = [t[1:4] for t in adB.trace if t[0] == 'run']
                wrA = [t for t in adA.trace if t[0] in ('w', 'f')]
                wrB = [t for t in adB.trace if t[0] in ('w', 'f')]
                if s.twin:
                    if [t for t in adA.trace if t[0] == 'r'] != [t for t in adB.trace if t[0] == 'r']:
                        res['viol'].append(('TWIN', 'read traces differ (expected by construction)'))
                    return res
                if runsA != runsB:
                    res['viol'].append(('CHUNKING', f'chunking {s.chosen}: run is called on different data / in a different order than with byte-at-a-time reads '
                                                    f'({len(runsA)} vs {len(runsB)} calls)'))
                elif wrA != wrB:
                    res['viol'].append(('CHUNKING', f'chunking {s.chosen}: different writes/flushes than with byte-at-a-time reads'))
                for nm, ad, r in (('chunked', adA, rA), ('byte-at-a-time', adB, rB)):
                    o = s.ordering(ad.trace)
                    if o:
                        res['viol'].append(('ORDER', f'{nm} schedule: {o}'))
                    if r.variant == 'Ok':
                        res['viol'].append(('RETURNED_OK', f'{nm} schedule: process returned Ok'))
                    elif r.f[0] != EOF_ERR:
                        res['viol'].append(('ERROR_CHANGED', f'{nm} schedule: process returned {r.f[0]!r} instead of the transport error'))
                res['runs'] = len(runsB)
            else:
                E = FaultErr()
                k = ex.decide([(i, True) for i in range(0, 4 * s.S + 2)])
                ad, r = s.execute(x, fork_chunks=True, max_empty=s.max_empty, fault=k, fault_err=E)
                s.chosen = list(ad.chosen)
                s.fault_k = k
                fired = any(t[0] in ('r!', 'w!', 'f!') and t[-1] == 'fault' for t in ad.trace)
                res['fired'] = fired
                if r.variant == 'Ok':
                    res['viol'].append(('RETURNED_OK', 'process returned Ok'))
                elif fired:
                    if r.f[0] is not E:
                        res['viol'].append(('ERROR_CHANGED', f'transport error injected at call {k} came back as {r.f[0]!r}'))
                    last = ad.trace[-1]
                    if not (last[0] in ('r!', 'w!', 'f!') and last[-1] == 'fault'):
                        res['viol'].append(('CALL_AFTER_ERROR', f'transport called again after its error at call {k}: {ad.trace[-1][0]}'))
                o = s.ordering(ad.trace)
                if o:
                    res['viol'].append(('ORDER', o))
        finally:
            w.abstract_run = None
        return res

    def on_leaf(s, out):
        ex = s.ex
        s.w.abstract_run = None
        rec = {'kind': out[0]}
        viol = out[1]['viol'] if out[0] == 'ok' else [(out[0].upper(), out[1])]
        if out[0] == 'ok':
            rec['runs'] = out[1].get('runs')
            rec['fired'] = out[1].get('fired')
        if viol:
            wit = model_bytes(ex.path_model(), s.x)
            # make the newline pattern readable: every non-newline byte shown as '.'
            pat = ''.join('N' if b == 10 else '.' for b in wit)
            rec['violations'] = [{'rule': v[0], 'what': f'{v[1]}; stream pattern {pat} (N = newline), buffer N={s.N}', 'input': wit.hex(), 'pattern': pat,
                                  'n': s.N, 'chunks': getattr(s, 'chosen', None), 'fault': getattr(s, 'fault_k', None), 'device': s.dev, 'abstract': True,
                                  'table': [[list(map(str, k)), v[0], list(v[1])] for k, v in s.table.items()],
                                  'role': v[0] + ':abstract'} for v in viol]
        if hash(tuple(map(str, ex.decisions))) % 997 == 0:
            rec['sample'] = {'pattern': ''.join('N' if b == 10 else '.' for b in model_bytes(ex.path_model(), s.x)), 'N': s.N, 'chunks': getattr(s, 'chosen', None),
                             'run_table': [[len(k), v[0], len(v[1])] for k, v in s.table.items()]}
        return rec


# ----------------------------------------------------------------------------- native confirmation of abstract counterexamples
FILL = {1: [b'\n'], 2: [b'X\n', b'C\n'], 3: [b'*R\n', b' X\n'], 4: [b'A:B\n', b'A:C\n', b'*Q?\n'], 5: [b'A:Q?\n', b'A:C;\n', b'X;*R\n'],
        6: [b'A:X:C\n', b'A:B;C\n'], 7: [b'A:X:Q?\n', b'X;A:Q?\n'], 8: [b'A:B;A:C\n']}


def find_real_instance(run, v):
    """an abstract counterexample says: for SOME deterministic run, process misbehaves on a stream with this newline pattern.
    Look for a concrete T1 stream with the same pattern on which the real code shows the same kind of misbehaviour
    (queries answering 7 or 123).  returns (True, detail) / (None, detail) when no concrete instance was found"""
    import itertools
    cands = [v] + list(v.get('alternatives', []))
    detail = {'tried': 0}
    big = {str(i): ['ok', 'int:123'] for i in range(8)}
    for cv in cands[:60]:
        pat = cv['pattern']
        lens = [len(p) + 1 for p in pat.split('N')[:-1]]
        tail = len(pat.split('N')[-1])
        options = [FILL.get(l, [b' ' * (l - 2) + b'X\n']) for l in lens]
        for combo in itertools.islice(itertools.product(*options), 24):
            stream = b''.join(combo) + b'X' * tail
            for script in (None, big):
                base = {'entry': 'process', 'device': 'T1', 'input': stream.hex(), 'n': cv['n'], 'script': script}
                detail['tried'] += 1
                ok_all, a = _instance_shows(run, v, cv, base)
                if ok_all:
                    detail.update({'stream': stream.decode('latin1'), 'n': cv['n'], 'chunks': cv.get('chunks'), 'fault': cv.get('fault'),
                                   'answers': '123' if script else '7', 'observation': a})
                    return True, detail
    if v['rule'] in ('RETURNED_OK', 'ERROR_CHANGED', 'CALL_AFTER_ERROR'):
        # the newline pattern of the abstract stream may not be realisable with this buffer (e.g. no query fits in N=2):
        # sweep the fault position over real streams with answered queries instead -- the same rule, a concrete instance
        for stream in (b'A:Q?\n', b'U? 5\nA:Q?\n', b'X\nA:Q?\nA:Q?\n'):
            for n in (8, 16):
                for k in range(0, 14):
                    base = {'entry': 'process', 'device': 'T1', 'input': stream.hex(), 'n': n, 'script': None}
                    detail['tried'] += 1
                    cv2 = {'fault': k, 'chunks': []}
                    ok_all, a = _instance_shows(run, v, cv2, base)
                    if ok_all:
                        detail.update({'stream': stream.decode('latin1'), 'n': n, 'chunks': [], 'fault': k, 'answers': '7', 'observation': a,
                                       'note': 'instance found by sweeping the fault position over real streams (the abstract pattern itself is not realisable on T1)'})
                        return True, detail
    return None, detail


def _instance_shows(run, v, cv, base):
    a = None
    for rel in (False,):      # the dev profile decides; the release profile is recorded by the caller's replay file
        if v['rule'] in ('CHUNKING',):
            a = run.native([dict(base, chunks=cv.get('chunks') or [], tail=1)], release=rel)[0]
            b = run.native([dict(base, chunks=[], tail=1)], release=rel)[0]
            ok = (a.get('events'), a.get('out'), a.get('panic')) != (b.get('events'), b.get('out'), b.get('panic'))
        elif v['rule'] in ('PANIC', 'HANG'):
            a = run.native([dict(base, chunks=cv.get('chunks') or [], tail=1)], release=rel)[0]
            ok = a.get('panic') is not None
        else:
            fault = [cv['fault'], 77] if cv.get('fault') is not None else None
            a = run.native([dict(base, chunks=cv.get('chunks') or [], tail=1, fault=fault)], release=rel)[0]
            tr = a.get('trace', [])
            if v['rule'] == 'RETURNED_OK':
                ok = a.get('result') == 'ok'
            elif v['rule'] == 'ERROR_CHANGED':
                ok = fault is not None and any(t.endswith('!77') for t in tr) and a.get('result') != 'err:77'
            elif v['rule'] == 'CALL_AFTER_ERROR':
                ok = any(t.endswith('!77') for t in tr) and not tr[-1].endswith('!77')
            elif v['rule'] == 'ORDER':
                ok = order_violation_native(tr) is not None
            else:
                ok = False
        if not ok:
            return False, a
    return True, a


def order_violation_native(tr):
    """on a real trace: no read while written bytes are unflushed (several writes before one flush are fine)"""
    unflushed = False
    for t in tr:
        if t.startswith('w'):
            unflushed = True
        elif t == 'f':
            unflushed = False
        elif t.startswith('r') and unflushed:
            return 'read before flush'
    return None
