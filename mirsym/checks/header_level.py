"""C01: a header selects a handler iff it spells the declared short/long forms.

HeaderFree   message = <L symbolic bytes over [A-Za-z0-9_:*?]> [" 5"] LF on a macro-built device
HeaderNear   near-miss spellings of every declared spelling: one position symbolic (all header characters), truncated /
             extended by one symbolic character, a level removed / duplicated, query mark toggled
The reference (mirsym/oracle.py ref_header) is built from the declaration strings, independently of the macro.
"""
import z3

from ..engine import Unsupported, deref
from ..natives import in_range, Or, as_slice
from ..world import PassWriter
from .. import oracle
from .common import model_bytes, bytes_repr
from .run_level import run_once

HDR_ALPHA = [c for c in range(48, 58)] + [c for c in range(65, 91)] + [c for c in range(97, 123)] + [95, 58, 42, 63]
STD_OUT = {'SYSTem:VERSion?': b'1999.0\n', 'SYSTem:ERRor:[NEXT]?': b'0,""\n', 'SYSTem:ERRor:COUNt?': b'0\n'}


def header_byte(ex, name):
    b = z3.BitVec(name, 8)
    ex.solver.add(Or(in_range(b, 48, 57), in_range(b, 65, 90), in_range(b, 97, 122), b == 95, b == 58, b == 42, b == 63))
    return b


class HeaderBase:
    def setup(s, world, params):
        s.w, s.ex = world, world.ex
        s.dev = params['device']
        s.tree = oracle.RefTree(world.devices[s.dev])
        s.twin = params.get('twin', False)

    LIT = {'u8': b'5', 'bool': b'ON', '&str': b'"x"', '&[u8]': b'#11a', 'i8': b'5', 'u16': b'5', 'i16': b'5', 'u32': b'5', 'i32': b'5', 'u64': b'5', 'i64': b'5',
           'usize': b'5', 'isize': b'5', 'f32': b'5', 'f64': b'5'}

    def judge(s, h, nargs, lit=b'5'):
        """run `h [ <literal>]\\n` and compare with the reference"""
        ex, w = s.ex, s.w
        msg = list(h) + ([32] + list(lit) if nargs else []) + [10]
        s.msg = msg
        dev, wr, rem = run_once(w, s.dev, msg, cap=None)
        calls = [e[1] for e in dev.f[0].events if e[0] == 'call']
        errs = [e[1] for e in dev.f[0].events if e[0] == 'err']
        if len(dev.f) > 1:
            errs = errs + list(w.queue_items(dev))
        ref = oracle.ref_header(s.tree, ex.truth, list(h))
        if s.twin and ref[0] == 'handler':
            ref = ('undefined',)
        viol = None
        if ref[0] == 'handler':
            hid = ref[1]
            if hid < s.tree.n_user:
                want = len(s.tree.decls[hid]['params'])
                if want == nargs and nargs == 1 and s.LIT.get(s.tree.decls[hid]['params'][0]) != lit:
                    if calls or len(errs) != 1:
                        viol = f'spells handler {hid} with a parameter of the wrong type: expected no call and one error, got calls {calls}, errors {[e.variant for e in errs]}'
                elif want == nargs:
                    if calls != [hid] or errs:
                        viol = f'spells handler {hid} ({s.tree.decls[hid]["cmd"]}): expected exactly that call and no error, got calls {calls}, errors {[e.variant for e in errs]}'
                elif calls or len(errs) != 1:
                    viol = f'spells handler {hid} with {nargs} instead of {want} parameters: expected no call and one error, got calls {calls}, errors {[e.variant for e in errs]}'
            else:
                decl = s.tree.extra[hid]
                if nargs:
                    if calls or len(errs) != 1:
                        viol = f'standard command {decl} with a parameter: expected one error, got calls {calls}, errors {[e.variant for e in errs]}'
                elif calls or errs or bytes(x for x in wr.items if isinstance(x, int)) != STD_OUT[decl] or len(wr.items) != len(STD_OUT[decl]):
                    viol = f'standard command {decl}: expected the response {STD_OUT[decl]!r}, got calls {calls}, errors {[e.variant for e in errs]}, output {wr.items}'
        elif ref[0] == 'undefined':
            if calls or [e.variant for e in errs] != ['UndefinedHeader']:
                viol = f'well-formed header that spells no declared command: expected no call and exactly [UndefinedHeader], got calls {calls}, errors {[e.variant for e in errs]}'
        else:
            if calls or len(errs) != 1:
                viol = f'malformed header: expected no call and exactly one error, got calls {calls}, errors {[e.variant for e in errs]}'
        return ref[0], viol

    def leaf(s, out, extra=''):
        ex = s.ex
        rec = {'kind': out[0]}
        if out[0] == 'ok':
            rec['ref'] = out[1]['ref']
            v = out[1]['viol']
            rule = 'HEADER'
        else:
            v = out[1]
            rule = out[0].upper()
        if v:
            wit = model_bytes(ex.path_model(), s.msg)
            rec['violations'] = [{'rule': rule, 'what': f'{v}; message {bytes_repr(wit)} on {s.dev}', 'input': wit.hex(), 'device': s.dev,
                                  'role': f'{rule}:{rec.get("ref")}' + extra}]
        if hash(tuple(map(str, ex.decisions))) % 127 == 0:
            rec['sample'] = {'message': bytes_repr(model_bytes(ex.path_model(), s.msg)), 'device': s.dev, 'reference': rec.get('ref')}
        return rec


class HeaderFree(HeaderBase):
    def __init__(s, world, params):
        s.setup(world, params)
        s.L = params['L']

    def body(s):
        ex = s.ex
        h = [header_byte(ex, f'h{i}') for i in range(s.L)]
        nargs = ex.decide([(0, True), (1, True)])
        ref, viol = s.judge(h, nargs)
        return {'ref': ref, 'viol': viol}

    def on_leaf(s, out):
        return s.leaf(out)


class HeaderNear(HeaderBase):
    MUT = ['exact', 'one-symbolic-position', 'append-symbolic', 'drop-last-char', 'drop-level', 'duplicate-level', 'toggle-query', 'leading-colon', 'prefix-of-long-form']

    def __init__(s, world, params):
        s.setup(world, params)
        # every spelled path of every declaration (user + standard)
        s.spellings = []
        for hid, (q, paths) in sorted(s.tree.spellings.items()):
            for p in paths:
                s.spellings.append((hid, q, p))
        lo, hi = params.get('range', (0, len(s.spellings)))
        s.spellings = s.spellings[lo:hi]

    def body(s):
        ex = s.ex
        si = ex.decide([(i, True) for i in range(len(s.spellings))]) if len(s.spellings) > 1 else 0
        hid, q, path = s.spellings[si]
        mut = ex.decide([(i, True) for i in range(len(s.MUT))])
        parts = [list(p.encode()) for p in path]
        query = q
        lead = False
        m = s.MUT[mut]
        if m == 'one-symbolic-position':
            flat = [(pi, ci) for pi, p in enumerate(parts) for ci in range(len(p))]
            pi, ci = flat[ex.decide([(i, True) for i in range(len(flat))])]
            parts[pi][ci] = header_byte(ex, 'hx')
        elif m == 'append-symbolic':
            pi = ex.decide([(i, True) for i in range(len(parts))])
            parts[pi] = parts[pi] + [header_byte(ex, 'hx')]
        elif m == 'drop-last-char':
            pi = ex.decide([(i, True) for i in range(len(parts))])
            parts[pi] = parts[pi][:-1]
        elif m == 'drop-level':
            pi = ex.decide([(i, True) for i in range(len(parts))])
            parts = parts[:pi] + parts[pi + 1:]
        elif m == 'duplicate-level':
            pi = ex.decide([(i, True) for i in range(len(parts))])
            parts = parts[:pi + 1] + [list(parts[pi])] + parts[pi + 1:]
        elif m == 'toggle-query':
            query = not q
        elif m == 'leading-colon':
            lead = True
        elif m == 'prefix-of-long-form':
            pi = ex.decide([(i, True) for i in range(len(parts))])
            k = ex.decide([(i, True) for i in range(1, len(parts[pi]) + 1)])
            parts[pi] = parts[pi][:k]
        h = []
        if lead and parts and parts[0] and parts[0][0] != 42:
            h.append(58)
        for i, p in enumerate(parts):
            if i:
                h.append(58)
            h += p
        if query:
            h.append(63)
        nargs = 0
        lit = b'5'
        if hid < s.tree.n_user and len(s.tree.decls[hid]['params']) == 1:
            nargs = 1
            lit = s.LIT[s.tree.decls[hid]['params'][0]]
        ref, viol = s.judge(h, nargs, lit) if h else ('malformed', None)
        if not h:
            s.msg = [10]
        return {'ref': ref, 'viol': viol, 'mut': m}

    def on_leaf(s, out):
        rec = s.leaf(out, ':' + (out[1].get('mut', '') if out[0] == 'ok' else ''))
        if out[0] == 'ok':
            rec['mut'] = out[1]['mut']
        return rec
