"""C09: the error queue is a bounded FIFO with IEEE 488.2 overflow semantics -- wiring and text level.

Interface::run from MIR on the ErrorCommands devices (capacities 1,2,3,4 and 10): every sequence of up to `depth`
operations from {undefined header, wrong parameter count, handler-raised custom error (symbolic number), SYST:ERR?,
SYST:ERR:NEXT?, SYST:ERR:COUN?, valid command}, one message each or two queries packed in one message; responses
compared with a reference FIFO (full => newest entry := -350, older entries untouched).
"""
import z3

from ..engine import Token, Unsupported, deref
from ..world import PassWriter, mk_error, mk_str
from ..natives import as_slice
from .common import model_bytes, bytes_repr
from .process_level import sym_equal
from .response_level import flat_item, show

OPS = ['undefined', 'arity', 'custom', 'next', 'next-long', 'count', 'valid', 'next+count']
OPS_PLUS = OPS + ['arity;next']


class QueueCheck:
    def __init__(s, world, params):
        s.w, s.ex = world, world.ex
        s.dev = params['device']
        s.cap = world.devices[s.dev]['queue']
        s.depth = params['depth']
        s.one_buffer = params.get('one_buffer', False)
        s.process = params.get('process')            # None | chunk size: the messages are streamed through process::<pn>
        s.pn = params.get('pn', 64)
        s.kinds = params.get('kinds') or OPS
        s.exact = params.get('exact_depth', False)
        s.twin = params.get('twin', False)
        s.t1 = world.devices[s.dev]['cmds'][0]['cmd'] == 'A:B'

    def body(s):
        ex, w = s.ex, s.w
        n_ops = s.depth if s.exact else (ex.decide([(i, True) for i in range(1, s.depth + 1)]) if s.depth > 1 else 1)
        kinds = s.kinds
        ops = [kinds[ex.decide([(i, True) for i in range(len(kinds))])] for _ in range(n_ops)]
        s.ops = ops
        valid = b':X\n' if s.t1 else b'*RST\n'
        custom_cmd = b':A:B\n' if s.t1 else b'ABC:DEF\n'
        def reference(policy_all):
            # policy_all: after a unit that fails at execution the later units of the message still run (C06 admits all or none)
            fifo = []
            exp_out = []
            msgs = []
            script = {}
            calls = 0
            s.customs = []

            def push(e):
                if len(fifo) < s.cap:
                    fifo.append(e)
                elif fifo:
                    fifo[-1] = ('unit', 'QueueOverflow')

            def render(e):
                if e[0] == 'unit':
                    err = mk_error(e[1])
                    return list(str(w.error_number(err)).encode()) + [44, 34] + list(deref(w.error_text(err)).items()) + [34]
                if isinstance(e[1], int):
                    return list(str(e[1]).encode()) + [44, 34] + list(b'cu') + [34]
                return [Token('int', e[1], 'i16'), 44, 34] + list(b'cu') + [34]

            def pop():
                if fifo:
                    return render(fifo.pop(0))
                return list(b'0,""')
            for k, op in enumerate(ops):
                if op == 'undefined':
                    msgs.append(b'ZZ\n')
                    push(('unit', 'UndefinedHeader'))
                elif op == 'arity':
                    msgs.append(valid[:-1] + b' 1\n')
                    push(('unit', 'UnexpectedNumberOfParameters'))
                elif op == 'custom':
                    # (through process the response goes into a capacity-limited buffer: a concrete number keeps its length known)
                    n = z3.BitVec(f'cn{k}', 16) if not s.process else -77 - k
                    s.customs.append(n)
                    script[calls] = ('custom', n, list(b'cu'))
                    calls += 1
                    msgs.append(custom_cmd)
                    push(('custom', n))
                elif op == 'next':
                    msgs.append(b'SYST:ERR?\n')
                    exp_out += pop() + [10]
                elif op == 'next-long':
                    msgs.append(b'system:error:next?\n')
                    exp_out += pop() + [10]
                elif op == 'count':
                    msgs.append(b'SYST:ERR:COUN?\n')
                    exp_out += list(str(len(fifo)).encode()) + [10]
                elif op == 'valid':
                    msgs.append(valid)
                    calls += 1
                elif op == 'arity;next':
                    # a unit that fails at execution (surplus parameter) followed by a relative queue query in the same message
                    msgs.append(b'SYST:ERR:COUN? 1;NEXT?\n')
                    push(('unit', 'UnexpectedNumberOfParameters'))
                    if policy_all:
                        exp_out += pop() + [10]
                else:
                    msgs.append(b'SYST:ERR:NEXT?;COUN?\n')
                    exp_out += pop() + [10]
                    exp_out += list(str(len(fifo)).encode()) + [10]
            return fifo, exp_out, msgs, script

        fifo, exp_out, msgs, script = reference(True)
        if s.twin:
            exp_out = exp_out + [48]
        dev = w.new_device(s.dev)
        dev.f[0].script.update(script)
        wr = PassWriter()
        s.msgs = msgs
        if s.process:
            from ..world import ScriptAdapter
            ad = ScriptAdapter(list(b''.join(msgs)), tail=s.process)
            w.process(dev, s.pn, ad)
            wr.items = list(ad.out)
        elif s.one_buffer:
            w.run(dev, list(b''.join(msgs)), wr)
        else:
            for m in msgs:
                w.run(dev, list(m), wr)
        out = list(wr.items)
        eq, m = sym_equal(ex, tuple(flat_item(x) for x in out), tuple(flat_item(x) for x in exp_out))
        if not eq and 'arity;next' in ops and not s.twin:
            fifo2, exp_out2, _, _ = reference(False)
            eq2, m2 = sym_equal(ex, tuple(flat_item(x) for x in out), tuple(flat_item(x) for x in exp_out2))
            if eq2:
                eq, m, fifo, exp_out = eq2, m2, fifo2, exp_out2
        viol = None
        if not eq:
            viol = (f'responses {show(out)!r} differ from the reference FIFO\'s {show(exp_out)!r}', m)
        else:
            # what is left in the queue
            left = w.queue_items(dev)
            if len(left) != len(fifo) or len(left) > s.cap:
                viol = (f'{len(left)} entries left in the queue, reference has {len(fifo)} (capacity {s.cap})', None)
        return {'viol': viol, 'overflowed': any(e == ('unit', 'QueueOverflow') for e in fifo) or 'QueueOverflow' in show(exp_out)}

    def on_leaf(s, out):
        ex = s.ex
        rec = {'kind': out[0], 'device': s.dev}
        if out[0] == 'ok':
            v = out[1]['viol']
            rec['overflowed'] = out[1]['overflowed']
            rule = 'QUEUE'
        else:
            v = (out[1], None)
            rule = out[0].upper()
        if v:
            m = v[1] if v[1] is not None else ex.path_model()
            nums = [n if isinstance(n, int) else m.eval(n, model_completion=True).as_signed_long() for n in s.customs]
            rec['violations'] = [{'rule': rule, 'what': f'{v[0]}; operations {s.ops} on {s.dev} (capacity {s.cap})' + (' in one buffer' if s.one_buffer else '') + (f' through process::<{s.pn}>, {s.process} bytes per read' if s.process else ''), 'input': b''.join(s.msgs).hex(),
                                  'messages': [mm.hex() for mm in s.msgs], 'device': s.dev, 'ops': s.ops, 'custom_numbers': nums, 'one_buffer': s.one_buffer, 'process': s.process, 'pn': s.pn,
                                  'role': f'{rule}:cap{s.cap}'}]
        if hash(tuple(map(str, ex.decisions))) % 257 == 0:
            rec['sample'] = {'device': s.dev, 'operations': s.ops}
        return rec
