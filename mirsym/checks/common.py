"""Shared pieces of the checks: symbolic buffers, witnesses, result summaries."""
import z3

from ..engine import Adt, Tup, Slice, Ref, HVec, Unsupported, deref, is_sym
from ..natives import as_slice


def sym_bytes(ex, n, name='b', alphabet=None):
    """n fresh symbolic bytes; with `alphabet` (iterable of ints) each is constrained to it"""
    bs = [z3.BitVec(f'{name}{i}', 8) for i in range(n)]
    if alphabet is not None:
        al = sorted(set(alphabet))
        for b in bs:
            ex.solver.add(z3.Or(*[b == c for c in al]))
    return bs


def model_bytes(model, items):
    out = []
    for b in items:
        if isinstance(b, int):
            out.append(b)
        else:
            out.append(model.eval(b, model_completion=True).as_long())
    return bytes(out)


def witness(ex, items, extra=None):
    """concrete bytes for the current path (optionally under an extra condition)"""
    if extra is None:
        return model_bytes(ex.path_model(), items)
    ok, m = ex.is_feasible(extra)
    if not ok:
        return None
    return model_bytes(m, items)


def parse_summary(world, devname, r, total):
    """hashable summary of a parse result: ('ok', consumed, call) | ('incomplete',) | ('soft', variant) | ('fatal', variant)"""
    names, _ = world.node_names(devname)
    if r.variant == 'Ok':
        rest, call = r.f[0].f
        k = total - rest.len
        if call.variant == 'None':
            return ('ok', k, None)
        c = call.f[0]
        args = []
        for v in c.f[3].items:
            sl = as_slice(v.f[0])
            args.append((v.variant, sl.start, sl.len))
        hdr = names[id(deref(c.f[1].f[0]))] if c.f[1].variant == 'Some' else None
        q, t = c.f[2], c.f[4]
        if is_sym(q) or is_sym(t):
            raise Unsupported('symbolic query/terminated flag')
        return ('ok', k, (names[id(deref(c.f[0]))], hdr, bool(q), bool(t), tuple(args)))
    e = r.f[0]
    if e.variant == 'Incomplete':
        return ('incomplete',)
    if e.variant == 'SoftError':
        return ('soft', e.f[0].f[0].variant if e.f[0].variant == 'Some' else None)
    return ('fatal', e.f[0].variant)


def bytes_repr(b):
    return repr(bytes(b))[2:-1]
