"""process-level explorations: Interface::process::<N> executed from MIR with a scripted transport.

FreeCheck      C05: no panic / no hang / run returns a suffix, for run and process on free-form symbolic input
ProcessEquiv   C07(b), C10: every chunking (forked at every read) against the byte-at-a-time schedule and against
               run-per-message, within one path, on the same symbolic stream
"""
import z3

from ..engine import Panic, Unsupported, Slice, HVec, Adt, Tup, Ref, FloatVal, Token, deref, is_sym, NativeFuture, Ok, Err, UNIT
from ..world import PassWriter, ScriptAdapter, mk_error, mk_str, EOF_ERR
from ..natives import as_slice, _eq
from .common import sym_bytes, model_bytes, bytes_repr
from .run_level import run_once, calls_of, errors_of

ALPHA_C02 = [ord(c) for c in 'ABCXQ*R:;? \n']
ALPHA_C05 = ALPHA_C02 + [ord(c) for c in '#"\',1!KS']


def flat(v):
    """value -> hashable structure with z3 expressions left in place"""
    v = deref(v)
    if isinstance(v, Slice):
        return ('slice', tuple(v.items()))
    if isinstance(v, (Adt,)):
        return (v.ty, v.variant, tuple(flat(x) for x in v.f))
    if isinstance(v, Tup):
        return ('tup', tuple(flat(x) for x in v.f))
    if isinstance(v, HVec):
        return ('hvec', tuple(flat(x) for x in v.items))
    if isinstance(v, FloatVal):
        return ('float', v.ty, v.bits if v.bits is not None else tuple(v.src))
    if isinstance(v, Token):
        return ('token', v.kind, v.ty, v.v)
    return v


def _queue_items(dev):
    from .. import world
    return world.CURRENT.queue_items(dev)


def observation(dev, out_items, extra=()):
    ev = []
    for e in dev.f[0].events:
        if e[0] == 'call':
            ev.append(('call', e[1], tuple(flat(a) for a in e[2])))
        else:
            ev.append(('err', flat(e[1])))
    q = None
    if len(dev.f) > 1:
        q = tuple(flat(x) for x in _queue_items(dev))
    return (tuple(ev), tuple(out_items), q) + tuple(extra)


def sym_equal(ex, a, b):
    """are two observations equal for every input of the current path?  (syntactic equality first, then the solver)
    returns (True, None) or (False, model)"""
    conds = []

    def walk(x, y):
        if isinstance(x, tuple) and isinstance(y, tuple):
            if len(x) != len(y):
                return False
            return all(walk(p, q) for p, q in zip(x, y))
        if isinstance(x, tuple) or isinstance(y, tuple):
            return False
        xs, ys = is_sym(x), is_sym(y)
        if not xs and not ys:
            return x == y
        if xs and ys and x.get_id() == y.get_id():
            return True
        if (xs and z3.is_bool(x)) or (ys and z3.is_bool(y)):
            conds.append(x == y)
            return True
        if isinstance(x, (str, type(None))) or isinstance(y, (str, type(None))):
            return False
        conds.append(_eq(x, y) if not (xs and ys) else x == y)
        return True
    if not walk(a, b):
        return False, None
    if not conds:
        return True, None
    sat, m = ex.is_feasible(z3.Not(z3.And(*conds)) if len(conds) > 1 else z3.Not(conds[0]))
    return (not sat), m


class FreeCheck:
    """C05 monitors on free-form symbolic input"""

    def __init__(s, world, params):
        s.w, s.ex = world, world.ex
        s.dev = params.get('device', 'T1')
        s.entry = params['entry']            # 'run' | 'process'
        s.L = params['L']
        s.cap = params.get('cap', 8)
        s.N = params.get('N', 4)
        s.alphabet = params.get('alphabet', ALPHA_C05)
        s.max_empty = params.get('max_empty', 1)
        s.step_limit = params.get('step_limit', 40_000)
        s.script = params.get('script')

    def body(s):
        ex, w = s.ex, s.w
        ex.step_limit = s.step_limit
        x = sym_bytes(ex, s.L, 'b', s.alphabet)
        s.x = x
        s.chunks = None
        if s.entry == 'run':
            buf = list(x)
            dev, wr, rem = run_once(w, s.dev, buf, cap=s.cap, script={0: ('ok', 123), 1: ('ok', 45)} if s.script == 'big' else None)
            suffix = rem.len == 0 or (rem.buf is buf and rem.start + rem.len == len(buf))
            return {'suffix': suffix, 'calls': len(calls_of(dev)), 'errs': len(errors_of(dev))}
        dev = w.new_device(s.dev)
        if s.script == 'big':
            dev.f[0].script.update({0: ('ok', 123), 1: ('ok', 45)})
        ad = ScriptAdapter(list(x), fork_chunks=True, max_empty=s.max_empty)
        s.ad = ad
        r = w.process(dev, s.N, ad)
        ok_ret = r.variant == 'Err' and r.f[0] == EOF_ERR
        # C10 on the real trace: a written response is flushed before the transport is asked for more input
        order = None
        pending = False
        for t in ad.trace:
            if t[0] == 'w':
                pending = True
            elif t[0] == 'f':
                pending = False
            elif t[0] in ('r', 'r!') and pending:
                order = 'the transport was asked for more input while a written response was not flushed yet'
        return {'suffix': True, 'calls': len(calls_of(dev)), 'errs': len(errors_of(dev)), 'returned_ok': r.variant == 'Ok', 'eof': ok_ret, 'order': order,
                'wrote': any(t[0] == 'w' for t in ad.trace)}

    def on_leaf(s, out):
        ex = s.ex
        rec = {'kind': out[0], 'steps': ex.steps}
        viol = []
        if out[0] == 'ok':
            r = out[1]
            rec['calls'] = r['calls']
            if not r['suffix']:
                viol.append(('SUFFIX', 'run returned a slice that is not a suffix of its input'))
            if r.get('returned_ok'):
                viol.append(('RETURNED_OK', 'process returned Ok'))
            if r.get('order'):
                viol.append(('ORDER', r['order']))
            rec['wrote'] = bool(r.get('wrote'))
        else:
            viol.append((out[0].upper(), out[1]))
        if viol:
            wit = model_bytes(ex.path_model(), s.x)
            chunks = list(s.ad.chosen) if s.entry == 'process' and getattr(s, 'ad', None) else None
            rec['violations'] = [{'rule': v[0], 'what': f'{v[1]} for input {bytes_repr(wit)}' + (f' N={s.N} chunks={chunks}' if s.entry == 'process' else f' cap={s.cap}'),
                                  'input': wit.hex(), 'device': s.dev, 'entry': s.entry, 'cap': s.cap, 'n': s.N, 'chunks': chunks,
                                  'script': {'0': ['ok', 'int:123'], '1': ['ok', 'int:45']} if s.script == 'big' else None,
                                  'role': v[0] + ':' + role_c05(v[1])} for v in viol]
        if hash(tuple(map(str, ex.decisions))) % 499 == 0:
            rec['sample'] = bytes_repr(model_bytes(ex.path_model(), s.x))
        return rec


def role_c05(msg):
    if 'step budget' in msg:
        return 'no-progress'
    if 'unwrap' in msg and 'execute_command' in msg:
        return 'unwrap-of-response-write-in-generated-dispatcher'
    m = msg.split(' in ')[-1] if ' in ' in msg else msg
    return m[:80]


class ProcessEquiv:
    """C07(b): process on every chunking == process byte-at-a-time == run per message (when the messages fit)"""

    def __init__(s, world, params):
        s.w, s.ex = world, world.ex
        s.dev = params.get('device', 'T1')
        s.S = params['S']
        s.N = params['N']
        s.alphabet = params.get('alphabet', ALPHA_C02)
        s.max_empty = params.get('max_empty', 1)
        s.pending = params.get('pending', 0)        # number of Pending injections tried (forked positions)
        s.force_nl = params.get('force_nl', True)
        s.step_limit = params.get('step_limit', 200_000)
        s.twin = params.get('twin', False)
        # concrete stream mode: realistic messages with long answers, every chunking still forked
        s.concrete = bytes.fromhex(params['concrete']) if params.get('concrete') else None
        s.long_answers = params.get('long_answers', False)

    def new_dev(s):
        dev = s.w.new_device(s.dev)
        if s.long_answers:
            from ..world import mk_str
            for i in range(8):
                dev.f[0].script[i] = ('ok', mk_str(b'0123456789'))
        return dev

    def one(s, x, **adkw):
        dev = s.new_dev()
        ad = ScriptAdapter(list(x), **adkw)
        r = s.w.process(dev, s.N, ad)
        writes = tuple(tuple(t[1]) for t in ad.trace if t[0] == 'w')
        return dev, ad, observation(dev, ad.out), writes, r

    def body(s):
        ex, w = s.ex, s.w
        ex.step_limit = s.step_limit
        if s.concrete is not None:
            x = list(s.concrete)
        else:
            x = sym_bytes(ex, s.S, 'b', s.alphabet)
            if s.force_nl:
                ex.solver.add(x[-1] == 10)
        s.x = x
        res = {'viol': []}
        pend = []
        devA, adA, obsA, wrA, rA = s.one(x, fork_chunks=True, max_empty=s.max_empty)
        s.chosen = list(adA.chosen)
        devB, adB, obsB, wrB, rB = s.one(x, tail=1)
        if s.twin:
            # wrong oracle: demands that the byte-at-a-time schedule issues the same sequence of adapter reads
            if [t for t in adA.trace if t[0] == 'r'] != [t for t in adB.trace if t[0] == 'r']:
                res['viol'].append(('TWIN', 'read traces differ (expected by construction)', None))
            return res
        if s.pending:
            # Pending injection: one adapter future (position forked over the whole call sequence) and every async
            # handler suspend before completing; the observable behaviour must not change
            k = ex.decide([(i, True) for i in range(adB.calls)]) if adB.calls > 1 else 0
            devP = s.new_dev()
            devP.f[0].hpend = 1
            adP = ScriptAdapter(list(x), tail=1, pend=[k] if s.pending == 1 else [k, k + 1])
            s.w.process(devP, s.N, adP)
            eqp, mp = sym_equal(ex, observation(devP, adP.out), obsB)
            res['pending_seen'] = True
            if not eqp:
                res['viol'].append(('PENDING', f'suspending adapter call {k} and the async handlers changes the behaviour', mp))
        eq, m = sym_equal(ex, obsA, obsB)
        if not eq:
            res['viol'].append(('CHUNKING', f'chunking {s.chosen} and byte-at-a-time reads give different handler calls / responses / errors', m))
        # run per message, when every message fits the buffer and the stream ends with a terminator
        T = ex.truth
        msgs, cur = [], []
        for b in x:
            cur.append(b)
            if T(_eq(b, 10)):
                msgs.append(cur)
                cur = []
        res['n_msgs'] = len(msgs)
        if not cur and msgs and all(len(mm) <= s.N for mm in msgs):
            dev = s.new_dev()
            out = []
            for mm in msgs:
                wr = HVec(s.N)
                w.run(dev, list(mm), wr)
                out.extend(wr.items)
            obsC = observation(dev, out)
            eq, m = sym_equal(ex, obsB, obsC)
            if not eq:
                res['viol'].append(('RUN_EQUIV', 'process (byte-at-a-time) differs from run called once per message', m))
            res['run_equiv_checked'] = True
        return res

    def on_leaf(s, out):
        ex = s.ex
        rec = {'kind': out[0]}
        viol = []
        if out[0] == 'ok':
            r = out[1]
            rec['n_msgs'] = r.get('n_msgs')
            rec['run_equiv_checked'] = bool(r.get('run_equiv_checked'))
            viol = r['viol']
        else:
            viol = [(out[0].upper(), out[1], None)]
        if viol:
            rec['violations'] = []
            for v in viol:
                m = v[2] if len(v) > 2 and v[2] is not None else ex.path_model()
                wit = model_bytes(m, s.x)
                rec['violations'].append({'rule': v[0], 'what': f'{v[1]}: stream {bytes_repr(wit)} N={s.N}', 'input': wit.hex(), 'device': s.dev, 'n': s.N, 'long_answers': s.long_answers,
                                          'chunks': getattr(s, 'chosen', None), 'role': v[0] + ':' + role_c07(wit, s.N, getattr(s, 'chosen', None))})
        if hash(tuple(map(str, ex.decisions))) % 499 == 0:
            rec['sample'] = {'stream': bytes_repr(model_bytes(ex.path_model(), s.x)), 'chunks': getattr(s, 'chosen', None), 'N': s.N}
        return rec


def role_c07(wit, n, chunks):
    if chunks:
        fill = 0
        # does some read leave the buffer exactly full?
        return 'some-chunking'
    return 'n/a'


# ----------------------------------------------------------------------------- C10 / C07: streams built from a library of realistic messages
LIBRARY = [
    # (message, expected handler calls, expected response bytes)
    (b'*Q?\n', [6], b'7\n'),
    (b'X\n', [3], b''),
    (b'A:Q?;:X\n', [4, 3], b'7\n'),
    (b'*Q? 1\n', [], b''),            # query with a surplus parameter: fails at execution, no response
    (b'U? "x"\n', [], b''),           # query whose parameter has the wrong kind
    (b'U? 5\n', [11], b'7\n'),
    (b'ZZ\n', [], b''),               # undefined header
    (b'X?\n', [], b''),               # query form of a command-only node
    (b'\n', [], b''),
    (b'A:C;B 1\n', [1], b''),        # last unit fails at execution after the path moved to A
    (b'C\n', [2], b''),              # relative header that exists at the root and below A
    (b'A:C;Q\n', [1], b''),          # command form of a query-only node below A
    (b'S "a\'b"\n', [9], b''),
    (b'A:B;S "x\ny"\n', [0, 10], b''),   # a message that is continued by a later read (newline inside the string), path A kept meanwhile
    (b'A:Q?;S "x\ny"\n', [4, 10], b'7\n'),   # an answered query in front of a payload newline: answered once (possibly before the message is complete)
]


class LibraryProcess:
    """process on streams of 1..k library messages, every chunking: handlers, responses (exactly those of the successful
    queries, one write + flush each, before the next read) and nothing else"""

    def __init__(s, world, params):
        s.w, s.ex = world, world.ex
        s.k = params.get('k', 2)
        s.N = params.get('N', 16)
        s.max_len = params.get('max_len', 12)
        s.all_chunkings = params.get('all_chunkings', False)
        s.twin = params.get('twin', False)
        s.fault = params.get('fault', False)      # C10: a transport error injected at every call position of the real trace
        s.lockstep = params.get('lockstep', False)   # schedules: one message per read (a controller that waits for each answer) and the whole stream

    def body_fault(s, stream, picks):
        """the real process on a library stream, whole or byte-wise, with a transport error at call index k: it must come back unchanged,
        at once (no further transport call), and never Ok"""
        ex, w = s.ex, s.w
        from .abstract_process import FaultErr
        L = len(stream)
        sched = ex.decide([(0, True), (1, True)])
        maxcalls = (L + 2 if sched else 3) + 2 * len(picks) + 1
        k = ex.decide([(i, True) for i in range(0, maxcalls)])
        E = FaultErr()
        ad = ScriptAdapter(list(stream), chunks=[L] if sched == 0 else [], tail=1, fault=k, fault_err=E)
        s.ad = ad
        s.fault_k = k
        dev = w.new_device('T1')
        r = w.process(dev, s.N, ad)
        fired = any(t[0] in ('r!', 'w!', 'f!') and t[-1] == 'fault' for t in ad.trace)
        viol = None
        if r.variant == 'Ok':
            viol = 'process returned Ok'
        elif fired:
            last = ad.trace[-1]
            if r.f[0] is not E:
                viol = f'transport error injected at call {k} ({[t[0] for t in ad.trace][k] if k < len(ad.trace) else "?"}) came back as {r.f[0]!r}'
            elif not (last[0] in ('r!', 'w!', 'f!') and last[-1] == 'fault'):
                viol = f'transport called again ({last[0]}) after its error at call {k} ({[t[0] for t in ad.trace][k]})'
        if s.twin and fired:
            viol = 'twin'
        return {'viol': viol, 'picks': picks, 'fired': fired, 'fault': k}

    def body(s):
        ex, w = s.ex, s.w
        ex.step_limit = 200_000
        n = ex.decide([(i, True) for i in range(1, s.k + 1)]) if s.k > 1 else 1
        picks = [ex.decide([(i, True) for i in range(len(LIBRARY))]) for _ in range(n)]
        stream = b''.join(LIBRARY[i][0] for i in picks)
        s.stream = stream
        if len(stream) > s.max_len or (s.lockstep and any(len(LIBRARY[i][0]) > s.N for i in picks)):
            return {'viol': None, 'skipped': True}
        if s.fault:
            return s.body_fault(stream, picks)
        dev = w.new_device('T1')
        if s.all_chunkings:
            ad = ScriptAdapter(list(stream), fork_chunks=True, max_empty=0)
        elif s.lockstep:
            per_msg = [len(LIBRARY[i][0]) for i in picks]
            scheds = [per_msg, [min(s.N, len(stream))] * (len(stream) // max(1, min(s.N, len(stream))) + 1)]
            ad = ScriptAdapter(list(stream), chunks=scheds[ex.decide([(0, True), (1, True)])], tail=1)
        else:
            # schedule family: whole stream, one byte per read, every single cut, every pair of cuts
            L = len(stream)
            scheds = [[L], []] + [[i, L - i] for i in range(1, L)] + [[i, j - i, L - j] for i in range(1, L) for j in range(i + 1, L)]
            ad = ScriptAdapter(list(stream), chunks=scheds[ex.decide([(k, True) for k in range(len(scheds))])], tail=1)
        s.ad = ad
        r = w.process(dev, s.N, ad)
        calls = calls_of(dev)
        exp_calls = [c for i in picks for c in LIBRARY[i][1]]
        exp_out = b''.join(LIBRARY[i][2] for i in picks)
        if s.twin:
            exp_out += b'!'
        # cumulative monitor: when the transport is asked for more input, exactly the responses of the messages delivered so far
        # have been written, and they have been flushed
        ends = []
        pos = 0
        cum = b''
        for i in picks:
            pos += len(LIBRARY[i][0])
            cum += LIBRARY[i][2]
            ends.append((pos, cum))
        viol = None
        if calls != exp_calls:
            viol = f'handlers {calls}, expected {exp_calls}'
        elif bytes(ad.out) != exp_out:
            viol = f'bytes written to the transport {bytes(ad.out)!r}, expected exactly the query responses {exp_out!r}'
        else:
            delivered = 0
            written = b''
            unflushed = False
            for t in ad.trace:
                if t[0] in ('r', 'r!'):
                    want = b''
                    upto = exp_out
                    for e, c in ends:
                        if e <= delivered:
                            want = c
                    for e, c in ends:
                        if e > delivered:
                            upto = c      # a message in progress (continued after a payload newline) may already have answered
                            break
                    if not (written.startswith(want) and upto.startswith(written)):
                        viol = f'asked for more input after {delivered} bytes with {written!r} written, but the complete messages so far answer {want!r}'
                        break
                    if unflushed:
                        viol = 'asked for more input before the written response was flushed'
                        break
                    if t[0] == 'r':
                        delivered += t[2]
                elif t[0] == 'w':
                    written += bytes(t[1])
                    unflushed = True
                elif t[0] == 'f':
                    unflushed = False
            if r.variant == 'Ok':
                viol = 'process returned Ok'
        return {'viol': viol, 'picks': picks}

    def on_leaf(s, out):
        rec = {'kind': out[0]}
        v = None
        if out[0] == 'ok':
            v = out[1]['viol']
            rule = 'LIBRARY' if not s.fault else 'LIBFAULT'
            rec['skipped'] = bool(out[1].get('skipped'))
            rec['fired'] = bool(out[1].get('fired'))
        else:
            v = out[1]
            rule = out[0].upper()
        if v:
            rec['violations'] = [{'rule': rule, 'what': f'{v}; stream {s.stream!r} N={s.N} chunks={list(s.ad.chosen)}', 'input': s.stream.hex(), 'device': 'T1', 'n': s.N, 'entry': 'process',
                                  'chunks': list(s.ad.chosen), 'fault': getattr(s, 'fault_k', None) if s.fault else None, 'expected_out': bytes(b''.join(LIBRARY[i][2] for i in out[1]['picks'])).hex() if out[0] == 'ok' else None,
                                  'expected_calls': [c for i in out[1]['picks'] for c in LIBRARY[i][1]] if out[0] == 'ok' else None, 'role': f'{rule}'}]
        if hash(tuple(map(str, s.ex.decisions))) % 199 == 0:
            rec['sample'] = {'stream': repr(s.stream), 'chunks': list(getattr(s, 'ad', None).chosen) if getattr(s, 'ad', None) else None}
        return rec


def confirm_library(run, v):
    detail = {}
    ok_all = False      # reproduced in the dev or the release profile (both recorded)
    if v['rule'] == 'LIBFAULT':
        for rel in (False, True):
            o = run.native([{'entry': 'process', 'device': 'T1', 'input': v['input'], 'n': v['n'], 'chunks': v.get('chunks') or [], 'tail': 1, 'fault': [v['fault'], 77]}], release=rel)[0]
            tr = o.get('trace', [])
            fired = any(t.endswith('!77') for t in tr)
            ok = o.get('result') == 'ok' or (fired and (o.get('result') != 'err:77' or not tr[-1].endswith('!77')))
            detail['release' if rel else 'dev'] = {'observation': o, 'reproduced': ok}
            ok_all = ok_all or ok
        return ok_all, detail
    for rel in (False, True):
        o = run.native([{'entry': 'process', 'device': 'T1', 'input': v['input'], 'n': v['n'], 'chunks': v.get('chunks') or [], 'tail': 1}], release=rel)[0]
        if v['rule'] in ('PANIC', 'HANG'):
            ok = o.get('panic') is not None
        else:
            got_calls = [e[1] for e in o.get('events', []) if e[0] == 'call']
            unflushed, order = False, False
            for t in o.get('trace', []):
                if t.startswith('w'):
                    unflushed = True
                elif t == 'f':
                    unflushed = False
                elif t.startswith('r') and unflushed:
                    order = True
            # responses owed at each read
            stream = bytes.fromhex(v['input'])
            ends, pos, cum, rest = [], 0, b'', stream
            while rest:
                for msg, calls, ans in sorted(LIBRARY, key=lambda x: -len(x[0])):
                    if rest.startswith(msg):
                        pos += len(msg)
                        cum += ans
                        ends.append((pos, cum))
                        rest = rest[len(msg):]
                        break
                else:
                    break
            delivered, written, late = 0, b'', False
            for t in o.get('trace', []):
                if t.startswith('r'):
                    want, upto = b'', cum
                    for e, c in ends:
                        if e <= delivered:
                            want = c
                    for e, c in ends:
                        if e > delivered:
                            upto = c
                            break
                    if not (written.startswith(want) and upto.startswith(written)):
                        late = True
                    if '=' in t:
                        delivered += int(t.split('=')[1])
                elif t.startswith('w'):
                    written += bytes.fromhex(t[1:].split('!')[0])
            ok = (o.get('panic') is not None or got_calls != v['expected_calls'] or o.get('out') != v['expected_out'] or order or late or o.get('result') == 'ok')
        detail['release' if rel else 'dev'] = {'observation': o, 'reproduced': ok}
        ok_all = ok_all or ok
    return ok_all, detail


def split_answers(v):
    """the expected writes: one per answered library message"""
    stream = bytes.fromhex(v['input'])
    out = []
    rest = stream
    while rest:
        for msg, calls, ans in sorted(LIBRARY, key=lambda x: -len(x[0])):
            if rest.startswith(msg):
                if ans:
                    out.append(ans)
                rest = rest[len(msg):]
                break
        else:
            break
    return out
