"""C03: handlers receive exactly the argument values written, or are not called.

ArgCheck    device TY, message  HDR ' ' <L symbolic bytes, all 256 values> LF  for every single-parameter handler:
            a reference IEEE 488.2 program-data lexer and a reference converter are co-executed on the same bytes.
ArityCheck  0..11 arguments against declared arities 0..10.
"""
import z3

from ..engine import Adt, Tup, Slice, HVec, FloatVal, Token, Unsupported, UNIT, is_sym, deref
from ..natives import _eq, in_range, Or, And, Not, lower, _all_eq
from ..world import PassWriter
from .common import sym_bytes, model_bytes, bytes_repr
from .run_level import run_once
from .. import mir

SINGLE = ['PU8', 'PI8', 'PU16', 'PI16', 'PU32', 'PI32', 'PU64', 'PI64', 'PUS', 'PIS', 'PF32', 'PF64', 'PBO', 'PST', 'PBL']


class Undefined(Exception):
    """the reference says nothing about this input (outside the grammar subset the property covers)"""


def is_ws(b):
    return Or(in_range(b, 0, 9), in_range(b, 11, 32))


def ref_lex(T, a, utf8_ok=lambda items: True):
    """reference lexer of <PROGRAM DATA> [, <PROGRAM DATA>]* with optional white space, over (symbolic) bytes a.
    returns list of literals (kind, start, end[, extra]) or None if the text is not a well-formed parameter list"""
    n = len(a)
    i = 0
    out = []

    def skip_ws(i):
        while i < n and T(is_ws(a[i])):
            i += 1
        return i
    i = skip_ws(i)
    if i == n:
        return []
    while True:
        if i >= n:
            return None
        b = a[i]
        st = i
        if T(Or(in_range(b, 65, 90), in_range(b, 97, 122))):
            i += 1
            while i < n and T(Or(in_range(a[i], 48, 57), in_range(a[i], 65, 90), in_range(a[i], 97, 122), _eq(a[i], 95))):
                i += 1
            out.append(('chars', st, i))
        elif T(Or(in_range(b, 48, 57), _eq(b, 43), _eq(b, 45), _eq(b, 46))):
            if T(Or(_eq(b, 43), _eq(b, 45))):
                i += 1
            d1 = 0
            while i < n and T(in_range(a[i], 48, 57)):
                i += 1
                d1 += 1
            frac = False
            d2 = 0
            if i < n and T(_eq(a[i], 46)):
                frac = True
                i += 1
                while i < n and T(in_range(a[i], 48, 57)):
                    i += 1
                    d2 += 1
            if d1 + d2 == 0:
                return None
            exp = False
            if i < n and T(Or(_eq(a[i], 69), _eq(a[i], 101))):
                j = i + 1
                if j < n and T(Or(_eq(a[j], 43), _eq(a[j], 45))):
                    j += 1
                k = j
                while k < n and T(in_range(a[k], 48, 57)):
                    k += 1
                if k == j:
                    return None      # 'E' without digits
                exp = True
                i = k
            out.append(('dec', st, i, {'frac': frac, 'exp': exp}))
        elif T(_eq(b, 35)):
            if i + 1 >= n:
                return None
            c = a[i + 1]
            if T(Or(_eq(lower(c), 104), _eq(lower(c), 113), _eq(lower(c), 98))):
                radix = 16 if T(_eq(lower(c), 104)) else (8 if T(_eq(lower(c), 113)) else 2)
                i += 2
                ds = i
                while i < n and T(Or(in_range(a[i], 48, 48 + min(radix, 10) - 1), And(radix == 16, Or(in_range(a[i], 65, 70), in_range(a[i], 97, 102))))):
                    i += 1
                if i == ds:
                    return None
                out.append(('radix', ds, i, {'radix': radix}))
            elif T(in_range(c, 49, 57)):
                # definite length block  #<n><n digits><bytes>
                nd = None
                for v in range(1, 10):
                    if T(_eq(c, 48 + v)):
                        nd = v
                        break
                # the message terminator follows the region at index n: it can end up inside the block header / payload
                if (n + 1) - (i + 2) < nd:
                    return 'INCOMPLETE'
                if i + 2 + nd > n:
                    return None          # the terminator sits where a length digit is expected
                ln = 0
                for k in range(nd):
                    d = a[i + 2 + k]
                    if k == 0 and T(_eq(d, 43)):
                        raise Undefined('sign in a block length (accepted by the implementation; the property does not cover it)')
                    if not T(in_range(d, 48, 57)):
                        return None
                    dv = None
                    for v in range(10):
                        if T(_eq(d, 48 + v)):
                            dv = v
                            break
                    ln = ln * 10 + dv
                ps = i + 2 + nd
                if ps + ln > n:
                    return 'INCOMPLETE'  # the payload swallows the terminator: the message is not complete yet
                i = ps + ln
                out.append(('block', ps, i))
            else:
                return None
        elif T(Or(_eq(b, 34), _eq(b, 39))):
            q = 34 if T(_eq(b, 34)) else 39
            i += 1
            ps = i
            while i < n and not T(_eq(a[i], q)):
                i += 1
            if i >= n:
                return 'INCOMPLETE'      # the terminator is part of the still open string
            if not utf8_ok(a[ps:i]):
                return None              # strings are UTF-8; anything else is malformed data
            out.append(('string', ps, i))
            i += 1
            if i < n and T(_eq(a[i], q)):
                raise Undefined('doubled quote inside a string literal')
        else:
            return None
        i = skip_ws(i)
        if i == n:
            return out
        if not T(_eq(a[i], 44)):
            return None
        i = skip_ws(i + 1)


def int_value(T, a, st, en, radix):
    """exact mathematical value of the digits a[st:en] as a z3 bit-vector of 80 bits / python int (forks nothing: digits already classified)"""
    W = 136
    acc = 0
    for b in a[st:en]:
        if isinstance(b, int):
            if 48 <= b <= 57:
                d = b - 48
            elif 97 <= b <= 102:
                d = b - 87
            else:
                d = b - 55
        else:
            if T(in_range(b, 48, 57)):
                d = z3.ZeroExt(W - 8, b - 48)
            elif T(in_range(b, 97, 102)):
                d = z3.ZeroExt(W - 8, b - 87)
            else:
                d = z3.ZeroExt(W - 8, b - 55)
        acc = acc * radix + d
    return acc


class ArgCheck:
    def __init__(s, world, params):
        s.w, s.ex = world, world.ex
        s.h = params['handler']
        s.L = params['L']
        decls = world.devices['TY']['cmds']
        s.decl = next(d for d in decls if d['cmd'] == s.h)
        s.k = decls.index(s.decl)
        s.ty = s.decl['params'][0]
        s.alphabet = params.get('alphabet')
        s.prefix = list(params.get('prefix', '').encode('latin1'))
        s.twin = params.get('twin', False)

    def body(s):
        ex, w = s.ex, s.w
        a = sym_bytes(ex, s.L, 'a', s.alphabet)
        # the argument region must not contain the terminator or ';' outside payloads: keep it simple and exclude both bytes
        for b in a:
            ex.solver.add(b != 10, b != 59)
        msg = list(s.h.encode()) + [32] + s.prefix + a + [10]
        a = s.prefix + a
        s.msg = msg
        dev, wr, rem = run_once(w, 'TY', msg, cap=None)
        ev = dev.f[0].events
        calls = [e for e in ev if e[0] == 'call']
        errs = [e[1] for e in ev if e[0] == 'err']
        T = ex.truth
        try:
            from ..natives import utf8_valid
            lits = ref_lex(T, a, lambda items: utf8_valid(ex, list(items)))
        except Undefined as u:
            return {'viol': None, 'class': 'undefined'}
        viol = None
        cls = None
        if lits == 'INCOMPLETE':
            cls = 'incomplete'
            if calls or errs or rem.len != len(msg):
                viol = f'the terminator lies inside a string/block: the message is incomplete, expected nothing to happen; got {len(calls)} call(s), errors {[e.variant for e in errs]}, {rem.len} bytes returned'
        elif lits is None:
            cls = 'malformed'
            if calls or len(errs) != 1:
                viol = f'malformed parameter text: expected no call and exactly one error, got {len(calls)} call(s), errors {[e.variant for e in errs]}'
        elif len(lits) != 1:
            cls = f'arity{len(lits)}'
            if calls or len(errs) != 1:
                viol = f'{len(lits)} parameters for a 1-parameter handler: expected no call and exactly one error, got {len(calls)} call(s), errors {[e.variant for e in errs]}'
        else:
            exp = s.expected(T, a, lits[0])
            cls = exp[0] + ':' + lits[0][0]
            if exp[0] == 'skip':
                return {'viol': None, 'class': cls}
            if exp[0] == 'call':
                if len(calls) != 1 or errs or calls[0][1] != s.k:
                    viol = f'well-formed {lits[0][0]} literal for {s.ty}: expected one call, got {len(calls)} call(s), errors {[e.variant for e in errs]}'
                else:
                    got = calls[0][2][0]
                    bad = s.value_differs(exp[1], got)
                    if bad is not None:
                        viol = bad
            else:
                codes = exp[1]
                if calls or len(errs) != 1 or errs[0].variant not in codes:
                    viol = f'{lits[0][0]} literal for {s.ty}: expected no call and one error of {codes}, got {len(calls)} call(s), errors {[e.variant for e in errs]}'
        if s.twin and cls and cls.startswith('call'):
            viol = viol or 'twin: pretends every delivered value is wrong'
        return {'viol': viol, 'class': cls}

    def expected(s, T, a, lit):
        """('call', value) | ('error', [acceptable Error variants]) | ('skip',)"""
        kind = lit[0]
        ty = s.ty
        ii = mir.int_info(ty)
        if ty == 'bool':
            if kind == 'chars':
                txt = a[lit[1]:lit[2]]
                for word, val in ((b'ON', True), (b'OFF', False)):
                    if len(txt) == len(word):
                        if T(_all_eq(txt, list(word))) or T(_all_eq(txt, list(word.lower()))):
                            return ('call', val)
                        if T(_all_eq([lower(x) for x in txt], list(word.lower()))):
                            return ('skip',)       # mixed case: not decided by the property
                for word in (b'true', b'false'):
                    if len(txt) == len(word) and T(_all_eq([lower(x) for x in txt], list(word))):
                        return ('skip',)
                return ('error', ['IllegalParameterValue'])
            if kind == 'dec':
                txt = a[lit[1]:lit[2]]
                if len(txt) == 1 and T(_eq(txt[0], 49)):
                    return ('call', True)
                if len(txt) == 1 and T(_eq(txt[0], 48)):
                    return ('call', False)
                return ('error', ['IllegalParameterValue'])
            return ('error', ['IllegalParameterValue', 'DataTypeError'])
        if ty == '&str':
            return ('call', ('bytes', a[lit[1]:lit[2]])) if kind == 'string' else ('error', ['DataTypeError'])
        if ty == '&[u8]':
            return ('call', ('bytes', a[lit[1]:lit[2]])) if kind == 'block' else ('error', ['DataTypeError'])
        if ty in ('f32', 'f64'):
            if kind == 'dec':
                return ('call', ('float', a[lit[1]:lit[2]], ty))
            return ('error', ['DataTypeError'])
        if ii:
            signed, bits = ii
            if kind == 'dec':
                info = lit[3]
                if info['frac'] or info['exp']:
                    return ('error', ['NumericDataError'])
                st, en = lit[1], lit[2]
                neg = False
                if T(_eq(a[st], 45)):
                    neg = True
                    st += 1
                elif T(_eq(a[st], 43)):
                    st += 1
                if neg and not signed:
                    return ('skip',)       # "-0" for an unsigned type: not decided by the property
                val = int_value(T, a, st, en, 10)
                if en - st > 38:
                    return ('skip',)
                limit = (1 << (bits - 1)) if (signed and neg) else ((1 << (bits - 1)) - 1 if signed else (1 << bits) - 1)
                fits = (val <= limit) if isinstance(val, int) else z3.ULE(val, limit)
                if T(fits):
                    return ('call', ('int', (-val) if neg else val, bits))
                return ('error', ['NumericDataError'])
            if kind == 'radix':
                val = int_value(T, a, lit[1], lit[2], lit[3]['radix'])
                if lit[2] - lit[1] > {16: 32, 8: 42, 2: 128}[lit[3]['radix']]:
                    return ('skip',)
                limit = (1 << (bits - 1)) - 1 if signed else (1 << bits) - 1
                fits = (val <= limit) if isinstance(val, int) else z3.ULE(val, limit)
                if T(fits):
                    return ('call', ('int', val, bits))
                return ('error', ['NumericDataError'])
            return ('error', ['DataTypeError'])
        raise Unsupported('expected value for ' + ty)

    def value_differs(s, exp, got):
        ex = s.ex
        got = deref(got)
        if isinstance(exp, bool):
            if isinstance(got, bool):
                return None if got == exp else f'delivered {got}, written {exp}'
            sat, _ = ex.is_feasible(got != exp)
            return f'delivered boolean can differ from {exp}' if sat else None
        if exp[0] == 'bytes':
            items = list(deref(got).items()) if isinstance(deref(got), Slice) else None
            if items is None or len(items) != len(exp[1]):
                return f'delivered payload of {None if items is None else len(items)} bytes, written {len(exp[1])}'
            c = _all_eq(items, exp[1])
            if c is True:
                return None
            if c is False:
                return 'delivered payload differs from the literal'
            sat, _ = ex.is_feasible(z3.Not(c))
            return 'delivered payload can differ from the literal' if sat else None
        if exp[0] == 'float':
            if not isinstance(got, FloatVal):
                return f'delivered {got!r} instead of a float'
            if got.ty != exp[2] or getattr(got, 'parsed_as', got.ty) != exp[2]:
                return f'delivered a value parsed as {getattr(got, "parsed_as", got.ty)} for a {exp[2]} parameter (double rounding)'
            if getattr(got, 'ops', None):
                return f'the parsed value was modified before delivery: {got.ops}'
            if got.src is None or len(got.src) != len(exp[1]):
                return 'the text handed to the float parser is not the literal'
            c = _all_eq(list(got.src), exp[1])
            if c is True:
                return None
            if c is False:
                return 'the text handed to the float parser is not the literal'
            sat, _ = ex.is_feasible(z3.Not(c))
            return 'the text handed to the float parser can differ from the literal' if sat else None
        if exp[0] == 'int':
            val, bits = exp[1], exp[2]
            if isinstance(val, int) and isinstance(got, int):
                return None if got == val else f'delivered {got}, written {val}'
            e = val if is_sym(val) else z3.BitVecVal(val, 136)
            e = z3.Extract(bits - 1, 0, e) if e.size() > bits else e
            g = got if is_sym(got) else z3.BitVecVal(got, bits)
            sat, _ = ex.is_feasible(g != e)
            return 'delivered integer can differ from the value written' if sat else None
        raise Unsupported(repr(exp))

    def on_leaf(s, out):
        ex = s.ex
        rec = {'kind': out[0], 'handler': s.h}
        if out[0] == 'ok':
            v = out[1]['viol']
            rec['class'] = out[1]['class']
            rule = 'ARG'
        else:
            v = out[1]
            rule = out[0].upper()
        if v:
            wit = model_bytes(ex.path_model(), s.msg)
            rec['violations'] = [{'rule': rule, 'what': f'{v}; message {bytes_repr(wit)}', 'input': wit.hex(), 'device': 'TY', 'handler': s.k, 'ptype': s.ty,
                                  'role': f'{rule}:{s.ty}:{rec.get("class")}'}]
        if hash(tuple(map(str, ex.decisions))) % 211 == 0:
            rec['sample'] = {'message': bytes_repr(model_bytes(ex.path_model(), s.msg)), 'class': rec.get('class')}
        return rec


class ArityCheck:
    def __init__(s, world, params):
        s.w, s.ex = world, world.ex
        s.decls = world.devices['TY']['cmds']

    def body(s):
        ex = s.ex
        hs = ['N0', 'N1', 'N2', 'N3', 'N4', 'N10']
        valid = {'N0': [], 'N1': [b'1'], 'N2': [b'1', b'-2'], 'N3': [b'1', b'ON', b'"z"'], 'N4': [b'1', b'2', b'3', b'4'], 'N10': [b'1'] * 10}
        h = hs[ex.decide([(i, True) for i in range(len(hs))])]
        n = ex.decide([(i, True) for i in range(0, 12)])
        args = (valid[h] + [b'1'] * 12)[:n]
        msg = h.encode() + (b' ' + b','.join(args) if args else b'') + b'\n'
        s.msg = msg
        dev, wr, rem = run_once(s.w, 'TY', list(msg), cap=None)
        calls = [e for e in dev.f[0].events if e[0] == 'call']
        errs = [e for e in dev.f[0].events if e[0] == 'err']
        k = next(i for i, d in enumerate(s.decls) if d['cmd'] == h)
        want = len(valid[h])
        viol = None
        if n == want:
            if len(calls) != 1 or calls[0][1] != k or errs:
                viol = f'{h} with {n} parameters: expected one call, got {len(calls)} calls, {len(errs)} errors'
            elif len(calls[0][2]) != n:
                viol = f'{h}: {len(calls[0][2])} arguments delivered, {n} written'
        elif calls or len(errs) != 1:
            viol = f'{h} with {n} parameters (declared {want}): expected no call and exactly one error, got {len(calls)} calls, {len(errs)} errors'
        return {'viol': viol}

    def on_leaf(s, out):
        rec = {'kind': out[0]}
        v = out[1]['viol'] if out[0] == 'ok' else out[1]
        if v:
            rec['violations'] = [{'rule': 'ARITY' if out[0] == 'ok' else out[0].upper(), 'what': f'{v}; message {s.msg!r}', 'input': s.msg.hex(), 'device': 'TY', 'role': 'ARITY'}]
        rec['sample'] = {'message': repr(s.msg)}
        return rec
