"""C14: ambiguous command sets are rejected at compile time, never shadowed.

The proc-macro's own code (microscpi-macros: Command::try_from, Command::paths, Tree::insert / insert_at) is executed
from its MIR on pairs of declaration strings whose letters are symbolic; `Tree::insert` returning Err is what makes the
macro panic (`.unwrap()` in `interface`), i.e. what makes the program not compile.  A reference expansion of the two
declarations (short/long/optional combinations, written from the property) decides whether they collide.
"""
import os
import re
import z3

from .. import mir, natives, natives_std
from ..engine import Engine, Adt, Tup, Slice, Ref, HVec, Unsupported, deref, is_sym
from ..natives import _all_eq, _eq, in_range, Or, And, upper
from ..world import read_enums
from .common import model_bytes, bytes_repr

_WORLD = {}


def macro_world(paths):
    key = paths['mir_macros']
    w = _WORLD.get(key)
    if w is None:
        repo = os.environ.get('VERIF_REPO', '/repo')
        enums = read_enums(os.path.join(repo, 'microscpi-macros', 'src'))
        enums.setdefault('Entry', ['Occupied', 'Vacant'])      # std::collections::hash_map::Entry
        ex = Engine(enums)
        ex.std_world = True
        fns, allocs = mir.read_mir(paths['mir_macros'], 'macros')
        ex.load(fns, allocs, 'macros')
        natives.install(ex)
        natives_std.install(ex)
        w = _WORLD[key] = ex
    return w


def find_fn(ex, suffix, nparams=None):
    c = [f for (cr, n), f in ex.fns.items() if n.endswith(suffix) and f.kind == 'fn' and (nparams is None or len(f.params) == nparams)]
    if len(c) != 1:
        raise Unsupported(f'{len(c)} functions named ..{suffix}')
    return c[0]


def string_bytes(v):
    return list(deref(v).items)


class Decl:
    """a declaration with symbolic letters: parts = [(optional, [bytes])], query"""

    def __init__(s, parts, query):
        s.parts, s.query = parts, query

    def text(s):
        out = []
        for i, (opt, t) in enumerate(s.parts):
            if i:
                out.append(58)
            out += ([91] if opt else []) + list(t) + ([93] if opt else [])
        if s.query:
            out.append(63)
        return out


def ref_paths(T, d):
    """reference expansion (property C01/C14): per part the long form (upper-cased), the short form (lower-case letters removed)
    if different, and nothing if the part is optional"""
    paths = [[]]
    for opt, t in d.parts:
        long = [upper(b) for b in t]
        short = [b for b in t if not T(in_range(b, 97, 122))]
        forms = [long]
        same = len(short) == len(long) and T(_all_eq(short, long) if short else True)
        if not same:
            forms.append(short)
        new = []
        for p in paths:
            for f in forms:
                new.append(p + [f])
            if opt:
                new.append(list(p))
        paths = new
    return paths


def same_path(T, p, q):
    if len(p) != len(q):
        return False
    for a, b in zip(p, q):
        if len(a) != len(b):
            return False
        if a and not T(_all_eq(a, b)):
            return False
    return True


class MacroCollisionCheck:
    """params: n (declarations, default 2), parts (max parts per declaration), mode 'small' (letters over {A,B}/{a,b}) or
    'near' (templates: each letter either the template's or Q/q, optional flags, length and kind symbolic), twin"""

    def __init__(s, world, params):
        s.w = world
        s.ex = None
        s.params = params
        s.n = params.get('n', 2)
        s.max_parts = params.get('parts', 2)
        s.mode = params.get('mode', 'small')
        s.templates = params.get('templates') or []
        s.twin = params.get('twin', False)

    def bind(s, paths):
        s.ex = macro_world(paths)

    def letter(s, ex, name, choices):
        b = z3.BitVec(name, 8)
        ex.solver.add(z3.Or(*[b == c for c in choices]))
        return b

    def sym_part(s, ex, name):
        """1..2 upper-case letters over {A,B} followed by 0..1 lower-case letters over {a,b}; optional or not"""
        if s.params.get('digits'):
            # one upper-case letter, 0..1 lower-case letter, 0..1 trailing character that is neither (digit or underscore)
            nu, nl = 1, ex.decide([(0, True), (1, True)])
            nd = ex.decide([(0, True), (1, True)])
        else:
            nu = ex.decide([(1, True), (2, True)])
            nl = ex.decide([(0, True), (1, True)])
            nd = 0
        opt = ex.decide([(0, True), (1, True)]) == 1
        t = [s.letter(ex, f'{name}u{i}', (65, 66)) for i in range(nu)] + [s.letter(ex, f'{name}l{i}', (97, 98)) for i in range(nl)]
        t += [s.letter(ex, f'{name}d{i}', (49, 50, 95)) for i in range(nd)]
        return (opt, t)

    def sym_decl(s, ex, name):
        n = ex.decide([(i, True) for i in range(1, s.max_parts + 1)]) if s.max_parts > 1 else 1
        parts = [s.sym_part(ex, f'{name}p{i}') for i in range(n)]
        q = (ex.decide([(0, True), (1, True)]) == 1) if not s.params.get('queries_only') else True
        return Decl(parts, q)

    def near_decl(s, ex, name, tmpl):
        """a declaration near a template: the same letters or Q/q in their place, any optional flags, a prefix of the parts, either kind"""
        q = tmpl.endswith('?')
        tparts = [p for p in tmpl.rstrip('?').split(':')]
        n = ex.decide([(i, True) for i in range(len(tparts), 0, -1)])
        parts = []
        for i, tp in enumerate(tparts[:n]):
            core = tp.strip('[]')
            opt = ex.decide([(0, True), (1, True)]) == 1
            # keep the whole part / drop the lower-case tail (so that short forms meet long forms)
            keep = ex.decide([(len(core), True), (sum(1 for c in core if not c.islower()), True)]) if any(c.islower() for c in core) else len(core)
            letters = [c for c in core if not c.islower()] if keep < len(core) else list(core)
            t = []
            for k, c in enumerate(letters):
                alt = 81 if not c.islower() else 113
                t.append(s.letter(ex, f'{name}p{i}c{k}', (ord(c), alt)) if c.isalpha() else ord(c))
            parts.append((opt, t))
        qq = ex.decide([(1 if q else 0, True), (0 if q else 1, True)]) == 1
        return Decl(parts, qq)

    def make_decls(s, ex):
        if s.mode == 'near':
            ti = ex.decide([(i, True) for i in range(len(s.templates))]) if len(s.templates) > 1 else 0
            tmpl = s.templates[ti]
            txt = list(tmpl.encode())
            q = tmpl.endswith('?')
            conc = Decl([(p.startswith('['), list(p.strip('[]').encode())) for p in tmpl.rstrip('?').split(':')], q)
            near = s.near_decl(ex, 'x', tmpl)
            # either order of declaration
            return [near, conc] if ex.decide([(0, True), (1, True)]) == 0 else [conc, near]
        return [s.sym_decl(ex, 'xyzw'[i]) for i in range(s.n)]

    def body(s):
        ex = s.ex
        ds = s.make_decls(ex)
        s.d = ds
        T = ex.truth
        ps = [ref_paths(T, d) for d in ds]

        def degenerate(pp):
            if any(len(p) == 0 for p in pp):
                return True
            for i in range(len(pp)):
                for j in range(i + 1, len(pp)):
                    if same_path(T, pp[i], pp[j]):
                        return True
            return False
        if any(degenerate(pp) for pp in ps):
            # a declaration that collides with itself ([A]:[A]) or has an empty spelling: outside the quantifier (pairs of declarations)
            return {'viol': None, 'class': 'degenerate', 'results': []}
        try_from = find_fn(ex, '>::try_from', 1)
        tree_new = find_fn(ex, '>::new', 0)
        insert = find_fn(ex, '>::insert', 2)
        is_query = find_fn(ex, '>::is_query', 1)
        cmds = []
        for d in ds:
            txt = d.text()
            r = ex.call_fn(try_from, [Slice(txt, 0, len(txt), True)], None)
            if r.variant != 'Ok':
                raise Unsupported('Command::try_from failed on a generated declaration')
            cmds.append(r.f[0])
        tree = ex.call_fn(tree_new, [], None)
        tref = Ref([tree], 0)
        results = []
        viol = None
        cls = 'free'
        for k, c in enumerate(cmds):
            cd = Adt('CommandDefinition', None, [k, c, Adt('CommandHandler', 'StandardFunction', [Slice(list(b'h'), 0, 1, True)]), natives_std.mk_vec([]), False])
            rc = Adt('Rc', None, [Ref([cd], 0)])
            r = ex.call_fn(insert, [tref, rc], None)
            results.append(r.variant if r.variant == 'Ok' else r.f[0].variant)
            collide = any(ds[j].query == ds[k].query and any(same_path(T, a, b) for a in ps[j] for b in ps[k]) for j in range(k))
            if s.twin:
                collide = not collide if k else collide
            if collide:
                cls = 'collide'
            if collide and r.variant == 'Ok':
                viol = f'declaration {k} shares a spelling of the same kind with an earlier one but is accepted: one handler is silently shadowed'
            elif not collide and r.variant != 'Ok':
                viol = f'declaration {k} shares no spelling of the same kind with an earlier one but is rejected ({results[-1]}): a collision-free set does not compile'
            elif collide and results[-1] != ('QueryExists' if ds[k].query else 'CommandExists'):
                viol = f'declaration {k} is rejected with {results[-1]}, the wrong kind'
            if viol or r.variant != 'Ok':
                break
        return {'viol': viol, 'class': cls, 'results': results}

    def on_leaf(s, out):
        ex = s.ex
        rec = {'kind': out[0]}
        v = None
        if out[0] == 'ok':
            v = out[1]['viol']
            rec['class'] = out[1]['class']
        else:
            v = f'{out[0]}: {out[1]}'
        if v:
            m = ex.path_model()
            texts = [bytes(model_bytes(m, d.text())).decode() for d in s.d]
            role = ('TWIN' if s.twin else 'COLLISION:' + out[1]['class']) if out[0] == 'ok' else out[0].upper()
            rec['violations'] = [{'rule': 'TWIN' if s.twin else ('COLLISION' if out[0] == 'ok' else out[0].upper()), 'what': f'{v}: declarations {texts}', 'decls': texts,
                                  'input': ''.join(texts).encode().hex(), 'results': out[1]['results'] if out[0] == 'ok' else None, 'role': role}]
        if hash(tuple(map(str, ex.decisions))) % 211 == 0:
            m = ex.path_model()
            rec['sample'] = {'declarations': [bytes(model_bytes(m, d.text())).decode() for d in s.d], 'class': rec.get('class'), 'insert_results': out[1]['results'] if out[0] == 'ok' else None}
        return rec


def run_concrete(ex, decls):
    """Tree::insert executed from MIR on a concrete declaration list -> list of results up to the first Err"""
    try_from = find_fn(ex, '>::try_from', 1)
    tree_new = find_fn(ex, '>::new', 0)
    insert = find_fn(ex, '>::insert', 2)

    def body():
        tree = ex.call_fn(tree_new, [], None)
        tref = Ref([tree], 0)
        res = []
        for k, d in enumerate(decls):
            txt = list(d.encode())
            c = ex.call_fn(try_from, [Slice(txt, 0, len(txt), True)], None).f[0]
            cd = Adt('CommandDefinition', None, [k, c, Adt('CommandHandler', 'StandardFunction', [Slice(list(b'h'), 0, 1, True)]), natives_std.mk_vec([]), False])
            r = ex.call_fn(insert, [tref, Adt('Rc', None, [Ref([cd], 0)])], None)
            res.append(r.variant if r.variant == 'Ok' else r.f[0].variant)
            if r.variant != 'Ok':
                break
        return res
    out, _ = ex.run_path([], body)
    ex.end_path()
    if out[0] != 'ok':
        raise Unsupported(f'concrete macro run failed: {out}')
    return out[1]


def spelling_sets(ex, decls):
    """Command::try_from + paths executed from MIR on concrete declarations -> {decl: set of spelled paths (tuples of mnemonics)}"""
    try_from = find_fn(ex, '>::try_from', 1)
    paths_fn = find_fn(ex, '>::paths', 1)
    out_all = {}
    for d in decls:
        txt = list(d.encode())
        out, _ = ex.run_path([], lambda: ex.call_fn(paths_fn, [Ref([ex.call_fn(try_from, [Slice(txt, 0, len(txt), True)], None).f[0]], 0)], None))
        ex.end_path()
        if out[0] != 'ok':
            raise Unsupported(f'Command::paths on {d!r}: {out}')
        out_all[d] = [tuple(bytes(string_bytes(x)).decode() for x in deref(p).items) for p in deref(out[1]).items]
    return out_all
