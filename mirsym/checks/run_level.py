"""Run-level explorations: Interface::run (and process) executed from MIR on structured / free-form symbolic messages."""
import itertools
import z3

from ..engine import Panic, Unsupported, Slice, HVec, Adt, deref, is_sym
from ..world import PassWriter, ScriptAdapter, mk_error, mk_str
from ..natives import as_slice
from .. import oracle
from .common import sym_bytes, model_bytes, bytes_repr


def calls_of(dev):
    return [e[1] for e in dev.f[0].events if e[0] == 'call']


def errors_of(dev):
    return [e[1] for e in dev.f[0].events if e[0] == 'err']


def run_once(w, devname, buf, cap=64, script=None, hpend=0):
    dev = w.new_device(devname)
    rec = dev.f[0]
    if script:
        rec.script.update(script)
    rec.hpend = hpend
    wr = HVec(cap) if cap is not None else PassWriter()
    rem = w.run(dev, buf, wr)
    return dev, wr, rem


# ----------------------------------------------------------------------------- C02
LETTERS = [ord(c) for c in 'ABCXQZ']


def unit_kinds(max_mnems, queries=True):
    kinds = [('common', 'R', False), ('common', 'Q', True)]
    for ab in (False, True):
        for nm in range(1, max_mnems + 1):
            for q in ((False, True) if queries else (False,)):
                kinds.append(('compound', ab, nm, q))
    return kinds


def skeletons(max_units, max_mnems, trailing_semicolon=True):
    kinds = unit_kinds(max_mnems)
    out = []
    for n in range(1, max_units + 1):
        for combo in itertools.product(range(len(kinds)), repeat=n):
            out.append((tuple(kinds[i] for i in combo), False))
            if trailing_semicolon and n < max_units + 1:
                out.append((tuple(kinds[i] for i in combo), True))
    return out


class PathContextCheck:
    """C02: compound-message path rules and history independence across message terminators"""

    def __init__(s, world, params):
        s.w, s.ex = world, world.ex
        s.dev = params.get('device', 'T1')
        s.tree = oracle.RefTree(world.devices[s.dev])
        s.skels = skeletons(params.get('units', 3), params.get('mnems', 2))
        lo, hi = params.get('range', (0, len(s.skels)))
        s.skels = s.skels[lo:hi]
        s.second = params.get('second', 'probe')     # 'probe': concrete C\n ; 'symbolic': 3 shapes with symbolic letters ; None
        s.letters = [ord(c) for c in params.get('letters', 'ACXQZ')]
        s.twin = params.get('twin', False)

    def build(s, skel, trailing, tag):
        """bytes + structure of one message"""
        ex = s.ex
        buf = []
        units = []
        nl = 0
        for ui, k in enumerate(skel):
            if ui > 0:
                buf.append(ord(';'))
            if k[0] == 'common':
                buf += [ord('*'), ord(k[1])]
                units.append({'common': True, 'abs': False, 'mnems': [[ord(k[1])]], 'query': k[2], 'kind': k})
            else:
                _, ab, nm, q = k
                if ab:
                    buf.append(ord(':'))
                mn = []
                for j in range(nm):
                    if j > 0:
                        buf.append(ord(':'))
                    b = z3.BitVec(f'{tag}u{ui}m{j}', 8)
                    ex.solver.add(z3.Or(*[b == c for c in s.letters]))
                    buf.append(b)
                    mn.append([b])
                    nl += 1
                units.append({'common': False, 'abs': ab, 'mnems': mn, 'query': q, 'kind': k})
            if units[-1]['query']:
                buf.append(ord('?'))
        if trailing:
            buf.append(ord(';'))
            units.append({'empty': True, 'kind': ('empty',)})
        buf.append(10)
        return buf, units

    def body(s):
        ex, w = s.ex, s.w
        si = ex.decide([(i, True) for i in range(len(s.skels))]) if len(s.skels) > 1 else 0
        skel, trailing = s.skels[si]
        buf1, units1 = s.build(skel, trailing, 'a')
        msgs = [(buf1, units1)]
        if s.second == 'probe':
            msgs.append(([ord('C'), 10], [{'common': False, 'abs': False, 'mnems': [[ord('C')]], 'query': False, 'kind': ('probe',)}]))
        elif s.second == 'symbolic':
            shape = ex.decide([(i, True) for i in range(3)])
            if shape == 2:
                msgs.append(([10], [{'empty': True, 'kind': ('empty',)}]))      # an empty message in between
            k2 = ('compound', False, 1 if shape != 1 else 2, False)
            b2, u2 = s.build((k2,), False, 'b')
            msgs.append((b2, u2))
        buf = [b for m in msgs for b in m[0]]
        s.buf = buf
        dev, wr, rem = run_once(w, s.dev, buf)
        impl = calls_of(dev)
        T = ex.truth
        exp_msgs = []
        carry = [()]
        for _, u in msgs:
            # the vacuity twin uses a wrong oracle in which a terminator does NOT reset the path
            exp_msgs.append(oracle.ref_message(s.tree, T, u, start=carry[0] if s.twin else (), final=carry))
        nunits = [sum(1 for u in us if not u.get('empty')) for _, us in msgs]
        viol = oracle.judge_path(exp_msgs, nunits, impl)
        return {'impl': impl, 'exp': exp_msgs, 'viol': viol, 'nunits': nunits, 'skel': [u['kind'] for _, us in msgs for u in us], 'errs': len(errors_of(dev))}

    def on_leaf(s, out):
        ex = s.ex
        rec = {'kind': out[0]}
        if out[0] == 'ok':
            r = out[1]
            rec['n_calls'] = len(r['impl'])
            if r['viol']:
                wit = model_bytes(ex.path_model(), s.buf)
                rec['violations'] = [{'rule': 'PATH', 'what': r['viol'][1] + f' for input {bytes_repr(wit)}', 'input': wit.hex(), 'device': s.dev,
                                      'expected': [e for e in r['exp']], 'nunits': r['nunits'], 'role': 'path:' + role_c02(r, wit)}]
        else:
            wit = model_bytes(ex.path_model(), s.buf)
            rec['violations'] = [{'rule': out[0].upper(), 'what': f'{out[1]} for input {bytes_repr(wit)}', 'input': wit.hex(), 'device': s.dev, 'role': out[0].upper()}]
        if hash(tuple(map(str, ex.decisions))) % 211 == 0:
            rec['sample'] = bytes_repr(model_bytes(ex.path_model(), s.buf))
        return rec


def role_c02(r, wit):
    txt = wit.decode('latin1')
    first = txt.split('\n')[0]
    units = first.split(';')
    mi = r['viol'][0]
    if mi >= 1:
        if any('FAULT' in e for e in r['exp'][:mi]):
            return 'message-after-faulty-message'
        if first.endswith(';'):
            return 'message-after-trailing-semicolon'
        return 'message-after-terminator'
    for i, u in enumerate(units[:-1]):
        if u.startswith(':') and u.count(':') == 1:
            return 'relative-unit-after-absolute-single-mnemonic-unit'
    return 'within-message'


# ----------------------------------------------------------------------------- shared: run or process a byte list
def execute(w, devname, entry, buf, n=32, script=None, hpend=0, cap=64, **adkw):
    """returns (dev, output items, extra) for entry 'run' | 'process'"""
    from ..world import ScriptAdapter
    if entry == 'run':
        dev, wr, rem = run_once(w, devname, list(buf), cap=cap, script=script, hpend=hpend)
        return dev, list(wr.items), {'rem': rem.len}
    dev = w.new_device(devname)
    if script:
        dev.f[0].script.update(script)
    dev.f[0].hpend = hpend
    ad = ScriptAdapter(list(buf), **adkw)
    r = w.process(dev, n, ad)
    return dev, list(ad.out), {'adapter': ad, 'result': r}


def events_of(dev):
    return list(dev.f[0].events)


# ----------------------------------------------------------------------------- C06
class FaultCheck:
    """C06: one faulty unit -> exactly one error, no handler for it, units before it normal, units after it all or none,
    other messages unaffected; through run (one buffer) and through process"""
    KINDS = ['invalid-byte', 'undefined-mnemonic', 'query-mismatch', 'extra-parameter', 'missing-parameter', 'wrong-kind', 'out-of-range', 'handler-error', 'malformed-block']

    def __init__(s, world, params):
        s.w, s.ex = world, world.ex
        s.dev = 'T1'
        s.entry = params.get('entry', 'run')
        s.kinds = params.get('kinds', list(range(len(s.KINDS))))
        s.chunk = params.get('chunk', 1)
        s.tail_len = params.get('tail', 3)
        s.twin = params.get('twin', False)
        s.double = params.get('double', False)     # a second faulty message right after the first one

    def faulty_unit(s, kind, rel, sfx=''):
        """(bytes, handler call made by the faulty unit itself or None, script, expected error or None=any).
        rel: the unit follows ':A:C' and is written relative to A where the tree allows it"""
        ex = s.ex
        from ..natives import in_range, Or, And, Not, lower
        k = s.KINDS[kind]
        A = b'' if rel else b':A:'
        if k == 'invalid-byte':
            b = z3.BitVec('fb' + sfx, 8)
            alnum = Or(in_range(b, 48, 57), in_range(b, 65, 90), in_range(b, 97, 122))
            ws = Or(in_range(b, 0, 9), in_range(b, 11, 32))
            ex.solver.add(z3.Not(alnum), z3.Not(ws), b != 95, b != 58, b != 59, b != 63, b != 10)
            return list(b'C' if rel else b':C') + [b], None, None, None
        if k == 'undefined-mnemonic':
            b = z3.BitVec('fl' + sfx, 8)
            ex.solver.add(Or(in_range(b, 65, 90), in_range(b, 97, 122)))
            for c in b'bckqsx':
                ex.solver.add(lower(b) != c)
            return list(A) + [b], None, None, None
        if k == 'query-mismatch':
            v = ex.decide([(0, True), (1, True), (2, True), (3, True)])
            return list([A + b'B?', A + b'Q', b'*R?', b'*Q'][v]), None, None, None
        if k == 'extra-parameter':
            v = ex.decide([(0, True), (1, True), (2, True), (3, True)])
            return list([A + b'B 1', b':U? 1,2', b'*R 1', b':W 0,1,2,3,4,5,6,7,8,9,10'][v]), None, None, None
        if k == 'missing-parameter':
            v = ex.decide([(0, True), (1, True), (2, True)])
            return list([A + b'K', b':U?', b':W 1,2,3,4,5,6,7,8,9'][v]), None, None, None
        if k == 'wrong-kind':
            v = ex.decide([(0, True), (1, True), (2, True)])
            return list([b':U? "x"', A + b'S 5', A + b'K 5'][v]), None, None, None
        if k == 'out-of-range':
            d = [z3.BitVec(f'fd{sfx}{i}', 8) for i in range(3)]
            for x in d:
                ex.solver.add(in_range(x, 48, 57))
            val = sum((z3.ZeroExt(8, x) - 48) * m for x, m in zip(d, (100, 10, 1)))
            ex.solver.add(z3.UGT(val, 255))
            return list(b':U? ') + d, None, None, None
        if k == 'malformed-block':
            # a definite-length block whose length field is not a digit (any byte but a digit and LF), or whose digit count is not a digit
            b = z3.BitVec('fk' + sfx, 8)
            ex.solver.add(z3.Not(in_range(b, 48, 57)), b != 10)
            v = ex.decide([(0, True), (1, True)])
            return list(A + b'K #1') + [b] if v == 0 else list(A + b'K #') + [b] + list(b'1'), None, None, None
        if k == 'handler-error':
            n = z3.BitVec('fn' + sfx, 16)
            return list(A + b'B'), 0, ('custom', n, list(b'bad')), ('Custom', n, b'bad')
        raise Unsupported(k)

    def body(s):
        ex, w = s.ex, s.w
        kind = s.kinds[ex.decide([(i, True) for i in range(len(s.kinds))])] if len(s.kinds) > 1 else s.kinds[0]
        shape = ex.decide([(i, True) for i in range(4)])       # [F], [v;F], [F;v], [v;F;v]
        pre = ex.decide([(i, True) for i in range(2)])         # preceding message or not
        rel = shape in (1, 3) and ex.decide([(0, True), (1, True)]) == 1
        fbytes, fcall, fscript, ferr = s.faulty_unit(kind, rel)
        # a message the parser rejects is discarded up to its terminator whatever else it contains: append a tail of
        # arbitrary bytes (everything but LF) to the two parse-level fault kinds
        s.tail = []
        if s.KINDS[kind] in ('invalid-byte', 'undefined-mnemonic') and s.tail_len and shape == 0:
            tl = ex.decide([(i, True) for i in range(0, s.tail_len + 1)])
            s.tail = [z3.BitVec(f'ft{i}', 8) for i in range(tl)]
            for b in s.tail:
                ex.solver.add(b != 10)
            if s.tail:
                fbytes = fbytes + [32] + s.tail
        before = [(list(b':A:C'), 1)] if shape in (1, 3) else []
        # the unit after the fault: a common command, or (after a relative faulty unit) a unit relative to A
        after = []
        if shape in (2, 3):
            after = [(list(b'C'), 1)] if (rel and not fbytes[0] == ord(':')) else [(list(b'*R'), 5)]
        msg = []
        for u, _ in before:
            msg += u + [ord(';')]
        msg += fbytes
        for u, _ in after:
            msg += [ord(';')] + u
        msg.append(10)
        # optionally a second faulty message (one unit, written from the root) right behind the first
        second = None
        if s.double:
            k2 = [k for k in s.kinds if s.KINDS[k] != 'handler-error']      # (its script index would depend on all-or-none of the first message)
            kind2 = k2[ex.decide([(i, True) for i in range(len(k2))])]
            f2, fcall2, fscript2, ferr2 = s.faulty_unit(kind2, False, sfx='2')
            msg = msg + f2 + [10]
            second = (fcall2, fscript2, ferr2)
        # the following message starts with a relative header: it must be resolved from the root whatever happened before
        stream = (list(b':X\n') if pre else []) + msg + list(b'C;A:Q?\n')
        s.stream = stream
        # which handler invocation (0-based count) is the faulty unit's own, for the script
        script = None
        if fscript is not None:
            idx = (1 if pre else 0) + len(before)
            script = {idx: fscript}
        if s.entry == 'run':
            dev, out, extra = execute(w, s.dev, 'run', stream, script=script)
        else:
            dev, out, extra = execute(w, s.dev, 'process', stream, n=64, script=script, tail=s.chunk)
        ev = events_of(dev)
        # admissible event sequences
        head = ([('call', 3)] if pre else []) + [('call', c) for _, c in before]
        if fcall is not None:
            head.append(('call', fcall))
        head.append(('err', ferr))
        tail = [('call', 2), ('call', 4)]
        if second is not None:
            tail = ([('call', second[0])] if second[0] is not None else []) + [('err', second[2])] + tail
        adm = [head + tail, head + [('call', c) for _, c in after] + tail]
        if s.twin:
            adm = [head + [('err', None)] + tail]     # wrong oracle: demands two error reports
        got = []
        for e in ev:
            if e[0] == 'call':
                got.append(('call', e[1]))
            else:
                got.append(('err', e[1]))
        viol = None

        def match(seq):
            if len(seq) != len(got):
                return False
            for a, b in zip(seq, got):
                if a[0] != b[0]:
                    return False
                if a[0] == 'call' and a[1] != b[1]:
                    return False
                if a[0] == 'err' and a[1] is not None:
                    e = b[1]
                    if e.variant != a[1][0]:
                        return False
                    if a[1][0] == 'Custom':
                        n = e.f[0]
                        same = (n.get_id() == a[1][1].get_id()) if is_sym(n) else False
                        if not same or bytes(as_slice(e.f[1]).items()) != a[1][2]:
                            return False
            return True
        if not any(match(a) for a in adm):
            viol = f'{s.KINDS[kind]} fault: events {[(g[0], g[1] if g[0] == "call" else getattr(g[1], "variant", g[1])) for g in got]} are none of the admissible sequences ' \
                   f'{[[(a[0], a[1] if a[0] == "call" else "error") for a in seq] for seq in adm]}'
        elif out != list(b'7\n'):
            viol = f'{s.KINDS[kind]} fault: output {out} instead of the single response "7\\n" of the last message'
        return {'viol': viol, 'kind': s.KINDS[kind], 'adm': adm, 'pre': pre, 'shape': shape, 'script': script}

    def on_leaf(s, out):
        ex = s.ex
        rec = {'kind': out[0]}
        viol = None
        if out[0] == 'ok':
            rec['fault'] = out[1]['kind']
            viol = out[1]['viol']
            rule = 'FAULT'
        else:
            viol = out[1]
            rule = out[0].upper()
        if viol:
            m = ex.path_model()
            wit = model_bytes(m, s.stream)
            script = None
            r = out[1] if out[0] == 'ok' else {}
            if r.get('script'):
                k, sc = list(r['script'].items())[0]
                n = m.eval(sc[1], model_completion=True).as_signed_long()
                script = {str(k): ['custom', n, bytes(sc[2]).hex()]}
            adm = None
            if out[0] == 'ok':
                adm = [[[a[0], a[1] if a[0] == 'call' else ('any' if a[1] is None else 'custom')] for a in seq] for seq in r['adm']]
            rec['violations'] = [{'rule': rule, 'what': f'{viol}; stream {bytes_repr(wit)} via {s.entry}', 'input': wit.hex(), 'device': s.dev, 'entry': s.entry,
                                  'script': script, 'admissible': adm, 'chunk': s.chunk, 'role': f'{rule}:{r.get("kind", "")}:{s.entry}'}]
        if hash(tuple(map(str, ex.decisions))) % 7 == 0:
            rec['sample'] = {'stream': bytes_repr(model_bytes(ex.path_model(), s.stream)), 'entry': s.entry}
        return rec


# ----------------------------------------------------------------------------- C08
class PayloadCheck:
    """C08: string and block payloads are delivered verbatim, through run and through process in any chunking"""

    def __init__(s, world, params):
        s.w, s.ex = world, world.ex
        s.dev = 'T1'
        s.entry = params.get('entry', 'run')
        s.maxlen = params.get('maxlen', 3)
        s.utf8 = params.get('utf8', False)
        s.slack = params.get('slack', 0)
        s.two_digit = params.get('two_digit', False)
        s.twin = params.get('twin', False)

    def body(s):
        ex, w = s.ex, s.w
        from ..natives import in_range
        prefix = ex.decide([(i, True) for i in range(3)])     # 0: none, 1: 'A:B;' (relative context), 2: a string unit 'S "a";' first
        form = ex.decide([(i, True) for i in range(4 if s.two_digit else 3)])     # 0: #1d block, 1: "string", 2: 'string', 3: #2dd block
        suffix = ex.decide([(i, True) for i in range(2)])
        ln = ex.decide([(i, True) for i in range(0, s.maxlen + 1)])
        pay = [z3.BitVec(f'p{i}', 8) for i in range(ln)]
        if form == 0:
            lit = list(b'#1') + [48 + ln] + pay
            hdr = b'K'
        elif form == 3:
            lit = list(b'#2') + [48 + ln // 10, 48 + ln % 10] + pay
            hdr = b'K'
        else:
            q = 34 if form == 1 else 39
            for i, b in enumerate(pay):
                ex.solver.add(b != q)
                if not (s.utf8 and i < 2):
                    ex.solver.add(z3.ULT(b, 128))
            if s.utf8 and ln >= 2:
                # first two bytes: either ASCII or one 2-byte sequence
                a, c = pay[0], pay[1]
                ex.solver.add(z3.Or(z3.And(z3.ULT(a, 128), z3.ULT(c, 128)), z3.And(in_range(a, 0xC2, 0xDF), in_range(c, 0x80, 0xBF))))
            elif s.utf8 and ln == 1:
                ex.solver.add(z3.ULT(pay[0], 128))
            lit = [q] + pay + [q]
            hdr = b'S'
        pre_bytes = [b'', b'A:B;', b'S "a";'][prefix]
        msg = list(pre_bytes) + list(hdr) + [32] + lit + (list(b';C') if suffix else []) + [10]
        # a following message with a relative header: it must be resolved from the root (the path must not survive the terminator)
        probe = ex.decide([(0, True), (1, True)]) == 1
        if probe:
            msg = msg + list(b'C\n')
        s.msg = msg
        hid = {(0, b'K'): 7, (1, b'K'): 8, (0, b'S'): 9, (1, b'S'): 10, (2, b'K'): 7, (2, b'S'): 9}[(prefix, hdr)]
        pre_exp = [[], [('call', 0, ())], [('call', 9, (('slice', (97,)),))]][prefix]
        exp = pre_exp + [('call', hid, (('slice', tuple(pay)),))] + ([('call', 1 if prefix == 1 else 2, ())] if suffix else []) + ([('call', 2, ())] if probe else [])
        if s.twin:
            exp = exp[:-1] if len(exp) > 1 else exp + [('call', 2, ())]
        if s.entry == 'run':
            dev, out, extra = execute(w, s.dev, 'run', msg)
            s.chunks = None
            s.n = None
        else:
            n = len(msg) + s.slack
            if n > 16:
                n = 24 if n <= 24 else 32
            s.n = n
            # every position of a single cut, plus byte-at-a-time and all-at-once
            sched = ex.decide([(i, True) for i in range(0, len(msg) + 1)])
            chunks = [] if sched == 0 else ([len(msg)] if sched == len(msg) else [sched, len(msg) - sched])
            s.chunks = chunks
            dev, out, extra = execute(w, s.dev, 'process', msg, n=n, chunks=chunks, tail=1)
        got = observation_events(dev)
        viol = None
        from .process_level import sym_equal
        eq, m = sym_equal(ex, tuple(got), tuple(exp))
        if not eq:
            viol = (f'handlers/arguments/errors {short(got)} differ from the expected {short(exp)}', m)
        elif out:
            viol = (f'unexpected output {out}', None)
        return {'viol': viol, 'form': form, 'ln': ln}

    def on_leaf(s, out):
        ex = s.ex
        rec = {'kind': out[0]}
        if out[0] == 'ok':
            v = out[1]['viol']
            rec['form'] = out[1]['form']
            rule = 'PAYLOAD'
        else:
            v = (out[1], None)
            rule = out[0].upper()
        if v:
            m = v[1] if v[1] is not None else ex.path_model()
            wit = model_bytes(m, s.msg)
            has_nl = b'\n' in wit[:-1].replace(b'\nC', b'')
            rec['violations'] = [{'rule': rule, 'what': f'{v[0]}; message {bytes_repr(wit)} via {s.entry}' + (f' N={s.n} chunks={s.chunks}' if s.entry == 'process' else ''),
                                  'input': wit.hex(), 'device': s.dev, 'entry': s.entry, 'n': s.n, 'chunks': s.chunks,
                                  'role': f'{rule}:{s.entry}:' + ('newline-in-payload' if has_nl else 'no-newline') + (':after-relative-unit' if wit.startswith(b'A:B;') else ':after-string-unit' if wit.startswith(b'S "a";') else '')}]
        if hash(tuple(map(str, ex.decisions))) % 31 == 0:
            rec['sample'] = {'message': bytes_repr(model_bytes(ex.path_model(), s.msg)), 'entry': s.entry, 'chunks': s.chunks}
        return rec


def observation_events(dev):
    from .process_level import flat
    ev = []
    for e in dev.f[0].events:
        if e[0] == 'call':
            ev.append(('call', e[1], tuple(flat(a) for a in e[2])))
        else:
            ev.append(('err', flat(e[1])))
    return ev


def short(ev):
    out = []
    for e in ev:
        if e[0] == 'call':
            out.append(f'h{e[1]}' + (f'({len(e[2][0][1])} bytes)' if e[2] else ''))
        else:
            out.append('error ' + str(e[1][1]))
    return out


# ----------------------------------------------------------------------------- C11
# base messages: (device, [unit...]); unit = (absolute?, [declared mnemonics], query?, [argument literals])
LEX_BASE = [
    ('T2', [(False, ['ABc', 'DeF'], False, [])]),
    ('T2', [(False, ['X', 'Y'], True, [])]),
    ('T2', [(False, ['Y'], False, [])]),
    ('T2', [(False, ['TeST', 'A'], True, [])]),
    ('T2', [(False, ['Gh1_', 'I2'], False, [b'5'])]),
    ('T2', [(False, ['OPT', 'INNer', 'LEAF'], True, [])]),
    ('T2', [(False, ['INNer', 'LEAF'], True, [])]),
    ('T2', [(False, ['*IDN'], True, [])]),
    ('T2', [(False, ['*RST'], False, [])]),
    ('T2', [(False, ['SYSTem', 'VALue'], True, [])]),
    ('T2', [(False, ['ABc', 'DeF'], False, []), (True, ['TeST', 'A'], True, [])]),
    ('T2', [(False, ['SYSTem', 'VALue'], True, []), (False, ['*RST'], False, []), (True, ['X', 'Y'], False, [])]),
    ('TY', [(False, ['N2'], False, [b'1', b'-2'])]),
    ('TY', [(False, ['N3'], False, [b'1', b'ON', b'"z"'])]),
    ('TY', [(False, ['MIX'], True, [b'-5', b'#12ab', b'OFF'])]),
    ('TY', [(False, ['PF64'], False, [b'1.5E+3'])]),
    ('TY', [(False, ['PST'], False, [b"'a b'"])]),
    ('T1', [(False, ['A', 'B'], False, []), (False, ['C'], False, [])]),
    ('T1', [(False, ['A', 'X', 'C'], False, []), (False, ['Q'], True, [])]),
    ('T3', [(False, ['SYSTem', 'ERRor', 'NEXT'], True, [])]),
    ('T3', [(False, ['SYSTem', 'ERRor'], True, []), (False, ['SYSTem', 'ERRor', 'COUNt'], True, [])]),
    ('T3', [(False, ['SYSTem', 'VERSion'], True, [])]),
    ('T2', [(False, ['Gh1_', 'I2'], False, [b'5']), (True, ['X', 'Y'], True, [])]),
    ('TY', [(False, ['N2'], False, [b'1', b'-2']), (False, ['N1'], False, [b'3']), (False, ['N0'], False, [])]),
    ('T1', [(False, ['A', 'S'], False, [b'"x"']), (False, ['K'], False, [b'#11a']), (False, ['C'], False, [])]),
    ('TL', [(False, ['ZZ'], False, []), (True, ['Z_'], False, []), (True, ['Z0'], False, [])]),
    ('TL', [(False, ['MEASure', 'VOLT_AC'], True, []), (False, ['CURRent'], True, [])]),
    ('TL', [(False, ['RANGe_1', 'AUTO'], False, [b'ON'])]),
    ('TL', [(False, ['MATH', 'OPeration', 'MULTiplyFloat'], True, [])]),
    ('TL', [(False, ['CONFigurationOfTheInstrument', 'VALue'], False, [b'5'])]),
    ('TL', [(False, ['OUTPutStageNumber1', 'STATe'], True, []), (True, ['STATe'], True, [])]),
    ('TL', [(False, ['A1x', 'B_2y', 'C3d'], False, []), (False, ['*OPC'], True, [])]),
    # a message ending in ';' (white space / CR may sit between it and the terminator) followed by a relative message: the terminator resets the path
    ('T1', [(False, ['A', 'B'], False, [])], {'trailing': True, 'probe': b'C\n'}),
    ('T1', [(False, ['A', 'B'], False, [])], {'probe': b'C\n'}),
    ('T1', [(False, ['A', 'X', 'C'], False, []), (False, ['Q'], True, [])], {'trailing': True, 'probe': b'C;A:Q?\n'}),
    ('T2', [(False, ['ABc', 'DeF'], False, [])], {'trailing': True, 'probe': b'DEF\n'}),
]


class LexCheck:
    """C11: case, short/long forms, white space and CR LF do not change the meaning"""

    def __init__(s, world, params):
        s.w, s.ex = world, world.ex
        s.idx = params['msg']
        s.dev, s.units = LEX_BASE[s.idx][:2]
        s.opts = LEX_BASE[s.idx][2] if len(LEX_BASE[s.idx]) > 2 else {}
        s.max_ws = params.get('max_ws', 2)
        s.total_ws = params.get('total_ws', 2)      # extra white-space bytes per message, over all slots
        s.twin = params.get('twin', False)

    def ws(s, name, lo):
        """lo.. symbolic white-space bytes in this slot, limited by what is left of the message's total budget"""
        ex = s.ex
        from ..natives import in_range, Or
        hi = max(lo, min(s.max_ws, lo + s.budget))
        n = ex.decide([(i, True) for i in range(lo, hi + 1)]) if hi > lo else lo
        s.budget -= (n - lo)
        out = []
        for i in range(n):
            b = z3.BitVec(f'w_{name}_{i}', 8)
            ex.solver.add(Or(in_range(b, 0, 9), in_range(b, 11, 32)))
            out.append(b)
        return out

    def mnemonic(s, name, decl):
        ex = s.ex
        star = decl.startswith('*')
        d = decl[1:] if star else decl
        short = ''.join(c for c in d if not c.islower())
        long = d.upper()
        form = long
        if short != long and ex.decide([(0, True), (1, True)]) == 1:
            form = short
        out = [42] if star else []
        for i, c in enumerate(form):
            if c.isalpha():
                b = z3.BitVec(f'c_{name}_{i}', 8)
                ex.solver.add(z3.Or(b == ord(c.upper()), b == ord(c.lower())))
                out.append(b)
            else:
                out.append(ord(c))
        return out

    def canonical(s):
        msg = []
        for ui, (ab, parts, q, args) in enumerate(s.units):
            if ui:
                msg.append(59)
            if ab:
                msg.append(58)
            msg += list(':'.join(p.upper() for p in parts).encode())
            if q:
                msg.append(63)
            if args:
                msg += [32] + list(b','.join(args))
        if s.opts.get('trailing'):
            msg.append(59)
        msg.append(10)
        return msg + list(s.opts.get('probe', b''))

    def body(s):
        ex, w = s.ex, s.w
        from .process_level import observation, sym_equal
        msg = []
        s.budget = s.total_ws
        for ui, (ab, parts, q, args) in enumerate(s.units):
            if ui:
                msg.append(59)
            msg += s.ws(f'u{ui}a', 0)
            if ab:
                msg.append(58)
            for pi, p in enumerate(parts):
                if pi:
                    msg.append(58)
                msg += s.mnemonic(f'u{ui}p{pi}', p)
            if q:
                msg.append(63)
            if args:
                msg += s.ws(f'u{ui}h', 1)
                for ai, a in enumerate(args):
                    if ai:
                        msg += s.ws(f'u{ui}c{ai}a', 0) + [44] + s.ws(f'u{ui}c{ai}b', 0)
                    msg += list(a)
            msg += s.ws(f'u{ui}z', 0)
        if s.opts.get('trailing'):
            msg.append(59)
            msg += s.ws('trail', 0)
        if ex.decide([(0, True), (1, True)]) == 1:
            msg.append(13)
        msg.append(10)
        msg += list(s.opts.get('probe', b''))
        s.msg = msg
        dev, out, _ = execute(w, s.dev, 'run', msg, cap=None)
        dev0, out0, _ = execute(w, s.dev, 'run', s.canonical(), cap=None)
        a, b = observation(dev, out), observation(dev0, out0)
        if s.twin:
            b = (b[0] + (('call', 99, ()),),) + b[1:]
        if not b[0] and not out0 and not s.twin:
            raise Unsupported('canonical spelling of a base message did nothing')
        eq, m = sym_equal(ex, a, b)
        return {'viol': None if eq else ('variant and canonical spelling behave differently', m), 'canon_calls': len([e for e in b[0] if e[0] == 'call'])}

    def on_leaf(s, out):
        ex = s.ex
        rec = {'kind': out[0], 'msg': s.idx}
        if out[0] == 'ok':
            v = out[1]['viol']
            rec['canon_calls'] = out[1]['canon_calls']
            rule = 'LEX'
        else:
            v = (out[1], None)
            rule = out[0].upper()
        if v:
            m = v[1] if v[1] is not None else ex.path_model()
            wit = model_bytes(m, s.msg)
            rec['violations'] = [{'rule': rule, 'what': f'{v[0]}: {bytes_repr(wit)} vs {bytes_repr(bytes(s.canonical()))} on {s.dev}', 'input': wit.hex(), 'canonical': bytes(s.canonical()).hex(),
                                  'device': s.dev, 'role': f'{rule}:msg{s.idx}'}]
        if hash(tuple(map(str, ex.decisions))) % 101 == 0:
            rec['sample'] = {'variant': bytes_repr(model_bytes(ex.path_model(), s.msg)), 'canonical': bytes_repr(bytes(s.canonical()))}
        return rec


# ----------------------------------------------------------------------------- C02 on a tree with short/long forms, optional nodes and standard commands
T3_UNITS = ['ABC:DEF', ':X:Y', 'Y?', ':Y', 'TST:A', 'TEST:A?', 'GH1_:I2 5', 'OPT:INN:LEAF?', ':LEAF?', '*IDN?', '*RST', 'SYST:VAL?', ':SYST:VERS?', 'SYST:ERR?',
            'SYSTEM:ERROR:NEXT?', 'SYST:ERR:COUN?', 'DF', 'DEF', 'Y', 'A', 'A?', 'I2 5', 'LEAF?', 'INNER:LEAF?', 'VAL?', 'VERS?', 'ERR?', 'COUN?', 'NEXT?', 'ERR:COUN?', 'X:Y?']
STD_TEXT = {'SYSTem:VERSion?': b'1999.0\n', 'SYSTem:ERRor:[NEXT]?': b'0,""\n', 'SYSTem:ERRor:COUNt?': b'0\n'}


def unit_struct(text):
    t = text
    nargs = 0
    if ' ' in t:
        t, _ = t.split(' ', 1)
        nargs = 1
    q = t.endswith('?')
    if q:
        t = t[:-1]
    if t.startswith('*'):
        return {'common': True, 'abs': False, 'mnems': [list(t[1:].encode())], 'query': q, 'nargs': nargs}
    ab = t.startswith(':')
    if ab:
        t = t[1:]
    return {'common': False, 'abs': ab, 'mnems': [list(m.encode()) for m in t.split(':')], 'query': q, 'nargs': nargs}


class ConcretePathCheck:
    """C02 on device T3: every message of 1..k units from a library of absolute, relative and common headers (short and long
    forms, optional nodes, standard commands), followed by a relative probe message; reference: the same SCPI path resolver"""

    def __init__(s, world, params):
        s.w, s.ex = world, world.ex
        s.dev = 'T3'
        s.k = params.get('k', 2)
        s.tree = oracle.RefTree(world.devices[s.dev])
        s.twin = params.get('twin', False)

    def body(s):
        ex, w = s.ex, s.w
        n = ex.decide([(i, True) for i in range(1, s.k + 1)]) if s.k > 1 else 1
        picks = [ex.decide([(i, True) for i in range(len(T3_UNITS))]) for _ in range(n)]
        units = [T3_UNITS[i] for i in picks]
        msg = ';'.join(units).encode() + b'\n' + b'VAL?;A\n'      # probe: both fail unless resolved from the root... VAL? needs SYST
        s.msg = msg
        dev, wr, rem = run_once(w, s.dev, list(msg), cap=None)
        T = lambda c: bool(c)
        exp1 = oracle.ref_message(s.tree, T, [unit_struct(u) for u in units], start=(('SYSTEM',) if s.twin else ()))
        # expected observable: user handler calls, standard responses, one error per faulty message
        calls = []
        out = b''
        errors = 0
        for h in exp1:
            if h == 'FAULT':
                errors += 1
                break
            if h < s.tree.n_user:
                calls.append(h)
                ret = s.tree.decls[h]['ret']
                if ret != '()':
                    out += {'u8': b'7\n', 'bool': b'1\n', '&str': b'"s"\n'}[ret]
            else:
                out += STD_TEXT[s.tree.extra[h]]
        # the probe message "VAL?;A" resolved from the root is undefined at its first unit: exactly one more error, nothing else
        errors += 1
        got_calls = calls_of(dev)
        got_errs = len(w.queue_items(dev))
        got_out = bytes(x for x in wr.items if isinstance(x, int))
        viol = None
        if 'FAULT' in exp1:
            # all or none of the units after the fault: prefix must match, nothing else is asserted about calls/output
            if got_calls[:len(calls)] != calls or not got_out.startswith(out[:0]):
                viol = f'units before the fault should call {calls}, got {got_calls}'
        elif got_calls != calls or got_out != out or got_errs != errors:
            viol = f'expected calls {calls}, responses {out!r}, {errors} error(s); got calls {got_calls}, responses {got_out!r}, {got_errs} error(s)'
        return {'viol': viol, 'fault': 'FAULT' in exp1, 'units': units}

    def on_leaf(s, out):
        rec = {'kind': out[0]}
        v = out[1]['viol'] if out[0] == 'ok' else out[1]
        if out[0] == 'ok':
            rec['fault'] = out[1]['fault']
        if v:
            rec['violations'] = [{'rule': 'TPATH' if out[0] == 'ok' else out[0].upper(), 'what': f'{v}; message {s.msg!r} on T3', 'input': s.msg.hex(), 'device': 'T3',
                                  'units': out[1]['units'] if out[0] == 'ok' else None, 'role': 'TPATH'}]
        if hash(tuple(map(str, s.ex.decisions))) % 173 == 0:
            rec['sample'] = {'message': repr(s.msg)}
        return rec


# ----------------------------------------------------------------------------- C08: payloads at later argument positions
class PayloadArgCheck:
    """C08 at argument positions >= 2 and with two payloads in one unit (device TY): N3 1,ON,<string> / MIX? -5,<block>,OFF /
    SS <string>,<string> / BB <block>,<block>, optionally followed by `;N0`; through run and through process in every single cut,
    byte-at-a-time and all-at-once.  Payload bytes symbolic (blocks: all values; strings: ASCII without the enclosing quote)."""
    TEMPLATES = ['N3 1,ON,{S0}', 'MIX? -5,{K0},OFF', 'SS {S0},{S1}', 'BB {K0},{K1}', 'N3 1,ON,{Q0}']

    def __init__(s, world, params):
        s.w, s.ex = world, world.ex
        s.dev = 'TY'
        s.entry = params.get('entry', 'run')
        s.maxlen = params.get('maxlen', 2)
        s.slack = params.get('slack', 0)
        s.twin = params.get('twin', False)
        s.ids = {c['cmd']: k for k, c in enumerate(world.devices['TY']['cmds'])}

    def payload(s, ex, name, kind):
        ln = ex.decide([(i, True) for i in range(0, s.maxlen + 1)])
        pay = [z3.BitVec(f'{name}{i}', 8) for i in range(ln)]
        if kind == 'K':
            return list(b'#1') + [48 + ln] + pay, pay
        q = 34 if kind == 'S' else 39
        for b in pay:
            ex.solver.add(b != q, z3.ULT(b, 128))
        return [q] + pay + [q], pay

    def body(s):
        ex, w = s.ex, s.w
        t = ex.decide([(i, True) for i in range(len(s.TEMPLATES))])
        tmpl = s.TEMPLATES[t]
        msg, pays = [], []
        i = 0
        while i < len(tmpl):
            if tmpl[i] == '{':
                lit, pay = s.payload(ex, f'p{tmpl[i + 2]}_', tmpl[i + 1])
                msg += lit
                pays.append(pay)
                i += 4
            else:
                msg.append(ord(tmpl[i]))
                i += 1
        suffix = ex.decide([(0, True), (1, True)]) == 1
        if suffix:
            msg += list(b';N0')
        msg.append(10)
        probe = ex.decide([(0, True), (1, True)]) == 1
        if probe:
            msg += list(b'N0\n')
        s.msg = msg
        head = tmpl.split(' ')[0]
        sl = [('slice', tuple(p)) for p in pays]
        args = {'N3': (1, True, sl[0]), 'MIX?': (-5, sl[0], False), 'SS': tuple(sl), 'BB': tuple(sl)}[head]
        exp = [('call', s.ids[head], args)] + ([('call', s.ids['N0'], ())] if suffix else []) + ([('call', s.ids['N0'], ())] if probe else [])
        exp_out = [55, 10] if head == 'MIX?' else []
        if s.twin:
            exp = exp + [('call', s.ids['N0'], ())]
        if s.entry == 'run':
            dev, out, extra = execute(w, s.dev, 'run', msg)
            s.chunks, s.n = None, None
        else:
            n = len(msg) + s.slack
            if n > 16:
                n = 24 if n <= 24 else 32 if n <= 32 else 64
            s.n = n
            sched = ex.decide([(i, True) for i in range(0, len(msg) + 1)])
            chunks = [] if sched == 0 else ([len(msg)] if sched == len(msg) else [sched, len(msg) - sched])
            s.chunks = chunks
            dev, out, extra = execute(w, s.dev, 'process', msg, n=n, chunks=chunks, tail=1)
        got = observation_events(dev)
        from .process_level import sym_equal
        # integers may be recorded as bit-vector values: compare the i16 argument modulo 2^16
        def norm(ev):
            return [(e[0], e[1], tuple((a & 0xFFFF) if isinstance(a, int) and not isinstance(a, bool) else a for a in e[2])) if e[0] == 'call' else e for e in ev]
        eq, m = sym_equal(ex, tuple(norm(got)), tuple(norm(exp)))
        viol = None
        if not eq:
            viol = (f'handlers/arguments/errors {got} differ from the expected {exp}', m)
        else:
            eq2, m2 = sym_equal(ex, tuple(flat_out(out)), tuple(exp_out))
            if not eq2:
                viol = (f'output {out} differs from the expected {exp_out}', m2)
        return {'viol': viol, 'form': t}

    def on_leaf(s, out):
        ex = s.ex
        rec = {'kind': out[0]}
        v = None
        if out[0] == 'ok':
            rec['form'] = out[1]['form']
            if out[1]['viol']:
                v = out[1]['viol']
                rule = 'TWIN' if s.twin else 'PAYLOAD'
        else:
            v = (f'{out[0]}: {out[1]}', None)
            rule = out[0].upper()
        if v:
            m = v[1] if v[1] is not None else ex.path_model()
            wit = model_bytes(m, s.msg)
            rec['violations'] = [{'rule': rule, 'what': v[0][:600] + f' for message {bytes_repr(wit)}' + (f' through process::<{s.n}> with reads {s.chunks or "of one byte"}' if s.entry != 'run' else ' through run'),
                                  'input': bytes(wit).hex(), 'entry': s.entry, 'n': s.n, 'chunks': s.chunks, 'device': 'TY', 'role': rule + ':argpos:' + s.entry}]
        if hash(tuple(map(str, ex.decisions))) % 101 == 0:
            rec['sample'] = {'message': bytes_repr(model_bytes(ex.path_model(), s.msg)), 'entry': s.entry, 'chunks': s.chunks}
        return rec


def flat_out(out):
    from .process_level import flat
    r = []
    for x in out:
        f = flat(x)
        if isinstance(f, tuple) and f and f[0] == 'token':
            r.append(f)
        else:
            r.append(f)
    return r
