"""Run-level explorations: Interface::run (and process) executed from MIR on structured / free-form symbolic messages."""
import itertools
import z3

from ..engine import Panic, Unsupported, Slice, HVec, Adt, deref, is_sym
from ..world import PassWriter, ScriptAdapter, mk_error, mk_str
from ..natives import as_slice
from .. import oracle
from .common import sym_bytes, model_bytes, bytes_repr


def calls_of(dev):
    return [e[1] for e in dev.f[0].events if e[0] == 'call']


def errors_of(dev):
    return [e[1] for e in dev.f[0].events if e[0] == 'err']


def run_once(w, devname, buf, cap=64, script=None, hpend=0):
    dev = w.new_device(devname)
    rec = dev.f[0]
    if script:
        rec.script.update(script)
    rec.hpend = hpend
    wr = HVec(cap) if cap is not None else PassWriter()
    rem = w.run(dev, buf, wr)
    return dev, wr, rem


# ----------------------------------------------------------------------------- C02
LETTERS = [ord(c) for c in 'ABCXQZ']


def unit_kinds(max_mnems, queries=True):
    kinds = [('common', 'R', False), ('common', 'Q', True)]
    for ab in (False, True):
        for nm in range(1, max_mnems + 1):
            for q in ((False, True) if queries else (False,)):
                kinds.append(('compound', ab, nm, q))
    return kinds


def skeletons(max_units, max_mnems, trailing_semicolon=True):
    kinds = unit_kinds(max_mnems)
    out = []
    for n in range(1, max_units + 1):
        for combo in itertools.product(range(len(kinds)), repeat=n):
            out.append((tuple(kinds[i] for i in combo), False))
            if trailing_semicolon and n < max_units + 1:
                out.append((tuple(kinds[i] for i in combo), True))
    return out


class PathContextCheck:
    """C02: compound-message path rules and history independence across message terminators"""

    def __init__(s, world, params):
        s.w, s.ex = world, world.ex
        s.dev = params.get('device', 'T1')
        s.tree = oracle.RefTree(world.devices[s.dev])
        s.skels = skeletons(params.get('units', 3), params.get('mnems', 2))
        lo, hi = params.get('range', (0, len(s.skels)))
        s.skels = s.skels[lo:hi]
        s.second = params.get('second', 'probe')     # 'probe': concrete C\n ; 'symbolic': 3 shapes with symbolic letters ; None
        s.letters = [ord(c) for c in params.get('letters', 'ACXQZ')]
        s.twin = params.get('twin', False)

    def build(s, skel, trailing, tag):
        """bytes + structure of one message"""
        ex = s.ex
        buf = []
        units = []
        nl = 0
        for ui, k in enumerate(skel):
            if ui > 0:
                buf.append(ord(';'))
            if k[0] == 'common':
                buf += [ord('*'), ord(k[1])]
                units.append({'common': True, 'abs': False, 'mnems': [[ord(k[1])]], 'query': k[2], 'kind': k})
            else:
                _, ab, nm, q = k
                if ab:
                    buf.append(ord(':'))
                mn = []
                for j in range(nm):
                    if j > 0:
                        buf.append(ord(':'))
                    b = z3.BitVec(f'{tag}u{ui}m{j}', 8)
                    ex.solver.add(z3.Or(*[b == c for c in s.letters]))
                    buf.append(b)
                    mn.append([b])
                    nl += 1
                units.append({'common': False, 'abs': ab, 'mnems': mn, 'query': q, 'kind': k})
            if units[-1]['query']:
                buf.append(ord('?'))
        if trailing:
            buf.append(ord(';'))
            units.append({'empty': True, 'kind': ('empty',)})
        buf.append(10)
        return buf, units

    def body(s):
        ex, w = s.ex, s.w
        si = ex.decide([(i, True) for i in range(len(s.skels))]) if len(s.skels) > 1 else 0
        skel, trailing = s.skels[si]
        buf1, units1 = s.build(skel, trailing, 'a')
        msgs = [(buf1, units1)]
        if s.second == 'probe':
            msgs.append(([ord('C'), 10], [{'common': False, 'abs': False, 'mnems': [[ord('C')]], 'query': False, 'kind': ('probe',)}]))
        elif s.second == 'symbolic':
            shape = ex.decide([(i, True) for i in range(3)])
            if shape == 2:
                msgs.append(([10], [{'empty': True, 'kind': ('empty',)}]))      # an empty message in between
            k2 = ('compound', False, 1 if shape != 1 else 2, False)
            b2, u2 = s.build((k2,), False, 'b')
            msgs.append((b2, u2))
        buf = [b for m in msgs for b in m[0]]
        s.buf = buf
        dev, wr, rem = run_once(w, s.dev, buf)
        impl = calls_of(dev)
        T = ex.truth
        exp_msgs = []
        carry = [()]
        for _, u in msgs:
            # the vacuity twin uses a wrong oracle in which a terminator does NOT reset the path
            exp_msgs.append(oracle.ref_message(s.tree, T, u, start=carry[0] if s.twin else (), final=carry))
        nunits = [sum(1 for u in us if not u.get('empty')) for _, us in msgs]
        viol = oracle.judge_path(exp_msgs, nunits, impl)
        return {'impl': impl, 'exp': exp_msgs, 'viol': viol, 'nunits': nunits, 'skel': [u['kind'] for _, us in msgs for u in us], 'errs': len(errors_of(dev))}

    def on_leaf(s, out):
        ex = s.ex
        rec = {'kind': out[0]}
        if out[0] == 'ok':
            r = out[1]
            rec['n_calls'] = len(r['impl'])
            if r['viol']:
                wit = model_bytes(ex.path_model(), s.buf)
                rec['violations'] = [{'rule': 'PATH', 'what': r['viol'][1] + f' for input {bytes_repr(wit)}', 'input': wit.hex(), 'device': s.dev,
                                      'expected': [e for e in r['exp']], 'nunits': r['nunits'], 'role': 'path:' + role_c02(r, wit)}]
        else:
            wit = model_bytes(ex.path_model(), s.buf)
            rec['violations'] = [{'rule': out[0].upper(), 'what': f'{out[1]} for input {bytes_repr(wit)}', 'input': wit.hex(), 'device': s.dev, 'role': out[0].upper()}]
        if hash(tuple(map(str, ex.decisions))) % 211 == 0:
            rec['sample'] = bytes_repr(model_bytes(ex.path_model(), s.buf))
        return rec


def role_c02(r, wit):
    txt = wit.decode('latin1')
    first = txt.split('\n')[0]
    units = first.split(';')
    mi = r['viol'][0]
    if mi >= 1:
        if any('FAULT' in e for e in r['exp'][:mi]):
            return 'message-after-faulty-message'
        if first.endswith(';'):
            return 'message-after-trailing-semicolon'
        return 'message-after-terminator'
    for i, u in enumerate(units[:-1]):
        if u.startswith(':') and u.count(':') == 1:
            return 'relative-unit-after-absolute-single-mnemonic-unit'
    return 'within-message'
