"""C04: responses are complete, well-formed and decode to the returned value.

Device TR has one query per response type.  The handler's return value is symbolic (bit-vectors for integers and
float bit patterns, symbolic bytes for strings / blocks, forked lengths for containers); the real Response impls,
the real `Write for heapless::Vec` and the generated dispatcher are executed from MIR; the output is compared with a
reference IEEE 488.2 encoder and, for strings, decoded again.
"""
import z3

from ..engine import Adt, Tup, Slice, HVec, FloatVal, Token, Unsupported, UNIT, is_sym, deref
from ..world import PassWriter, mk_str, mk_error
from ..natives import _eq, in_range
from .common import model_bytes, bytes_repr
from .run_level import run_once, calls_of, errors_of
from .process_level import sym_equal, flat
from .. import mir

QUERIES = ['RBO', 'RU8', 'RI8', 'RU16', 'RI16', 'RU32', 'RI32', 'RU64', 'RI64', 'RUS', 'RIS', 'RF32', 'RF64', 'RST', 'RHS', 'RAR', 'RCH', 'RER',
           'RT2', 'RT3', 'RT4', 'RSL', 'RSS', 'RHV', 'RNT']
ERR_SAMPLE = ['UndefinedHeader', 'QueueOverflow', 'SyntaxError', 'QueryError', 'OutOfMemory']


class ResponseCheck:
    def __init__(s, world, params):
        s.w, s.ex = world, world.ex
        s.q = params['query']
        s.maxlen = params.get('maxlen', 4)
        s.writer = params.get('writer', 'pass')       # 'pass' | 'heapless'
        s.twin = params.get('twin', False)
        decls = world.devices['TR']['cmds']
        s.decl = next(d for d in decls if d['cmd'] == s.q + '?')
        s.k = decls.index(s.decl)
        s.n = 0

    # ---- symbolic value of a Rust type + its reference encoding
    def fresh(s, nm):
        s.n += 1
        return f'{nm}{s.n}'

    def sym_value(s, ty):
        """returns (engine value, reference encoding as list of output items, python description)"""
        ex = s.ex
        ty = ty.strip()
        T = ex.truth
        ii = mir.int_info(ty)
        if ty == 'bool':
            b = z3.Bool(s.fresh('vb'))
            # the reference: 1 / 0
            return b, ('bool', b)
        if ii:
            v = z3.BitVec(s.fresh('vi'), ii[1])
            return v, ('int', v, ty)
        if ty in ('f32', 'f64'):
            bits = z3.BitVec(s.fresh('vf'), 32 if ty == 'f32' else 64)
            return FloatVal(bits, ty), ('float', bits, ty)
        if ty == '&str' or ty.startswith('heapless::String<') or ty == 'Characters':
            n = ex.decide([(i, True) for i in range(0, s.maxlen + 1)])
            bs = []
            for i in range(n):
                b = z3.BitVec(s.fresh('vs'), 8)
                if ty == 'Characters':
                    ex.solver.add(z3.Or(in_range(b, 65, 90), in_range(b, 48, 57)))
                elif i >= 3 or n < 2 or (i == 2 and n < 3):
                    ex.solver.add(z3.ULT(b, 128))
                bs.append(b)
            if ty != 'Characters' and n >= 2:
                # the first bytes: ASCII characters, or one 2-byte UTF-8 sequence, or (n >= 3) one 3-byte sequence (non-ASCII text must
                # survive too, and byte offsets differ from character offsets behind it)
                two = z3.And(in_range(bs[0], 0xC2, 0xDF), in_range(bs[1], 0x80, 0xBF))
                asc = z3.And(z3.ULT(bs[0], 128), z3.ULT(bs[1], 128))
                if n >= 3:
                    three = z3.And(in_range(bs[0], 0xE1, 0xEC), in_range(bs[1], 0x80, 0xBF), in_range(bs[2], 0x80, 0xBF))
                    ex.solver.add(z3.Or(z3.And(asc, z3.ULT(bs[2], 128)), z3.And(two, z3.ULT(bs[2], 128)), three))
                else:
                    ex.solver.add(z3.Or(asc, two))
            if ty == 'Characters':
                return Adt('Characters', None, [mk_str(bs)]), ('chars', bs)
            if ty.startswith('heapless::String<'):
                h = HVec(int(ty[17:-1]), True)
                h.items = list(bs)
                return h, ('str', bs)
            return mk_str(bs), ('str', bs)
        if ty == 'Arbitrary':
            n = ex.decide([(i, True) for i in (0, 1, 2, 9, 10, 12)])
            bs = [z3.BitVec(s.fresh('va'), 8) for _ in range(n)]
            return Adt('Arbitrary', None, [Slice(bs, 0, n)]), ('block', bs)
        if ty == 'Error':
            i = ex.decide([(j, True) for j in range(len(ERR_SAMPLE) + 1)])
            if i < len(ERR_SAMPLE):
                e = mk_error(ERR_SAMPLE[i])
                num = s.w.error_number(e)
                txt = list(deref(s.w.error_text(e)).items())
                return e, ('tuple', [('intc', num), ('str', txt)])
            n = z3.BitVec(s.fresh('ve'), 16)
            txt = [ord('c'), z3.BitVec(s.fresh('vs'), 8), ord('d')]
            s.ex.solver.add(z3.ULT(txt[1], 128))
            return mk_error('Custom', [n, mk_str(txt)]), ('tuple', [('int', n, 'i16'), ('str', txt)])
        pt = mir.parse_type(ty)
        if pt[0] == 'tuple':
            vals, refs = [], []
            for t in pt[1]:
                v, r = s.sym_value(mir.type_str(t))
                vals.append(v)
                refs.append(r)
            return Tup(vals), ('tuple', refs)
        if pt[0] == '&' and pt[1][0][0] == 'slice' or pt[0] == 'heapless::Vec':
            if pt[0] == '&':
                et, cap = mir.type_str(pt[1][0][1][0]), 3
            else:
                et, cap = mir.type_str(pt[1][0]), int(mir.type_str(pt[1][1]))
            n = ex.decide([(i, True) for i in range(0, min(cap, 3) + 1)])
            vals, refs = [], []
            saved = s.maxlen
            s.maxlen = min(s.maxlen, 2)
            for _ in range(n):
                v, r = s.sym_value(et)
                vals.append(v)
                refs.append(r)
            s.maxlen = saved
            if pt[0] == '&':
                return Slice(vals, 0, n), ('tuple', refs)
            h = HVec(cap)
            h.items = vals
            return h, ('tuple', refs)
        raise Unsupported('symbolic value of type ' + ty)

    def encode(s, ref):
        """reference IEEE 488.2 response data encoder (co-executed: forks on quote bytes / float classes)"""
        ex = s.ex
        T = ex.truth
        k = ref[0]
        if k == 'bool':
            return [49] if T(ref[1]) else [48]
        if k == 'int':
            return [Token('int', ref[1], ref[2])]
        if k == 'intc':
            return list(str(ref[1]).encode())
        if k == 'float':
            bits, ty = ref[1], ref[2]
            fp = z3.fpBVToFP(bits, z3.Float32() if ty == 'f32' else z3.Float64())
            if T(z3.fpIsNaN(fp)):
                return list(b'9.91E+37')
            if T(z3.fpIsInf(fp)):
                return list(b'-9.9E+37') if T(z3.fpIsNegative(fp)) else list(b'9.9E+37')
            return [Token('float', bits, ty)]
        if k == 'str':
            out = [34]
            for b in ref[1]:
                if T(_eq(b, 34)):
                    out += [34, 34]        # IEEE 488.2 8.7.8: an embedded double quote is doubled
                else:
                    out.append(b)
            return out + [34]
        if k == 'chars':
            return list(ref[1])
        if k == 'block':
            n = len(ref[1])
            if n == 0:
                return list(b'#10')
            d = str(n)
            return list(f'#{len(d)}{d}'.encode()) + list(ref[1])
        if k == 'tuple':
            out = []
            for i, r in enumerate(ref[1]):
                if i:
                    out.append(44)
                out += s.encode(r)
            return out
        raise Unsupported(k)

    def decode_str(s, items):
        """reference decoder of string response data: strips the quotes, un-doubles embedded ones"""
        T = s.ex.truth
        if len(items) < 2 or not T(_eq(items[0], 34)) or not T(_eq(items[-1], 34)):
            return None
        body = items[1:-1]
        out = []
        i = 0
        while i < len(body):
            if T(_eq(body[i], 34)):
                if i + 1 < len(body) and T(_eq(body[i + 1], 34)):
                    out.append(body[i])
                    i += 2
                    continue
                return None     # a lone quote would end the string early
            out.append(body[i])
            i += 1
        return out

    def body(s):
        ex, w = s.ex, s.w
        s.n = 0
        val, ref = s.sym_value(s.decl['ret'])
        s.val = val
        msg = list((s.q + '?\n').encode())
        dev = w.new_device('TR')
        dev.f[0].script[0] = ('ok', val)
        if s.writer == 'std':
            wr = HVec(10 ** 9)
            wr.std = True
        else:
            wr = PassWriter() if s.writer == 'pass' else HVec(256)
        w.run(dev, msg, wr)
        out = list(wr.items)
        exp = s.encode(ref) + [10]
        if s.twin:
            exp = exp[:-1] + [13, 10]
        viol = None
        eq, m = sym_equal(ex, tuple(flat_item(x) for x in out), tuple(flat_item(x) for x in exp))
        if not eq:
            viol = (f'response {show(out)} differs from the reference encoding {show(exp)}', m)
        elif errors_of(dev):
            viol = ('an error was reported for a successful query', None)
        elif s.writer == 'pass' and [o for o in wr.ops if o == ('F',)] != [('F',)]:
            viol = (f'flush calls: {wr.ops}', None)
        elif s.writer == 'pass' and wr.ops[-1] != ('F',):
            viol = ('the flush is not the last writer call', None)
        elif ref[0] == 'str':
            dec = s.decode_str(out[:-1])
            ok2 = dec is not None and len(dec) == len(ref[1])
            if ok2:
                ok2, m2 = sym_equal(ex, tuple(dec), tuple(ref[1]))
            if not ok2:
                viol = (f'decoding the response {show(out)} does not give back the returned string', None)
        return {'viol': viol, 'nout': len(out)}

    def on_leaf(s, out):
        ex = s.ex
        rec = {'kind': out[0], 'query': s.q}
        if out[0] == 'ok':
            v = out[1]['viol']
            rule = 'RESPONSE'
        else:
            v = (out[1], None)
            rule = out[0].upper()
        if v:
            m = v[1] if v[1] is not None else ex.path_model()
            tok = ret_token(m, s.val, s.decl['ret'])
            rec['violations'] = [{'rule': rule, 'what': f'{s.q}? returning {tok}: {v[0]}', 'input': (s.q + '?\n').encode().hex(), 'device': 'TR', 'script': {'0': ['ok', tok]},
                                  'writer': s.writer, 'role': f'{rule}:{kind_of(s.decl["ret"])}'}]
        if hash(tuple(map(str, ex.decisions))) % 13 == 0:
            rec['sample'] = {'query': s.q + '?', 'returned': ret_token(ex.path_model(), s.val, s.decl['ret'])}
        return rec


def kind_of(ty):
    if 'str' in ty or 'String' in ty:
        return 'string' if '(' not in ty and '[' not in ty else 'container-with-string'
    return ty.split('<')[0]


def flat_item(x):
    if isinstance(x, Token):
        return ('token', x.kind, x.ty, x.v)
    return x


def show(items):
    out = []
    for x in items:
        if isinstance(x, int):
            out.append(chr(x) if 32 <= x < 127 else f'\\x{x:02x}')
        elif isinstance(x, Token):
            out.append(f'<{x.kind} {x.ty}>')
        else:
            out.append('?')
    return ''.join(out)


def ret_token(m, v, ty):
    """concrete script token (vreplay syntax) of a symbolic return value under model m"""
    v = deref(v)
    ty = ty.strip()

    def ev(x, signed=False):
        if isinstance(x, bool):
            return int(x)
        if isinstance(x, int):
            return x
        r = m.eval(x, model_completion=True)
        if z3.is_bool(r):
            return 1 if z3.is_true(r) else 0
        return r.as_signed_long() if signed else r.as_long()
    if ty == 'bool':
        return f'bool:{ev(v)}'
    ii = mir.int_info(ty)
    if ii:
        return f'int:{ev(v, ii[0])}'
    if ty in ('f32', 'f64'):
        return f'{ty}:{ev(v.bits)}'
    if isinstance(v, Adt) and v.ty in ('Characters', 'Arbitrary'):
        b = bytes(ev(x) for x in v.f[0].items())
        return ('str:' if v.ty == 'Characters' else 'bytes:') + b.hex()
    if isinstance(v, Adt) and v.ty == 'Error':
        if v.variant == 'Custom':
            return 'err:custom'
        return 'err:?' + v.variant
    if isinstance(v, Slice) and v.is_str:
        return 'str:' + bytes(ev(x) for x in v.items()).hex()
    if isinstance(v, HVec) and v.is_str:
        return 'str:' + bytes(ev(x) for x in v.items).hex()
    pt = mir.parse_type(ty)
    if isinstance(v, Tup):
        return 'tuple:[' + ';'.join(ret_token(m, x, mir.type_str(t)) for x, t in zip(v.f, pt[1])) + ']'
    if isinstance(v, Slice):
        et = mir.type_str(pt[1][0][1][0])
        if et == 'u8':
            return 'bytes:' + bytes(ev(x) for x in v.items()).hex()
        return 'list:[' + ';'.join(ret_token(m, x, et) for x in v.items()) + ']'
    if isinstance(v, HVec):
        et = mir.type_str(pt[1][0])
        return 'list:[' + ';'.join(ret_token(m, x, et) for x in v.items) + ']'
    raise Unsupported('token for ' + ty)


class NoOutputCheck:
    """C04, last sentence: commands, failed queries, rejected arguments and undefined headers produce no output"""

    def __init__(s, world, params):
        s.w, s.ex = world, world.ex

    def body(s):
        ex, w = s.ex, s.w
        case = ex.decide([(i, True) for i in range(6)])
        n = z3.BitVec('en', 16)
        msgs = [(b'CMD\n', None), (b'RU8?\n', {0: ('custom', n, list(b'x'))}), (b'RU8?\n', {0: ('unit', 'ExecutionError')}), (b'RU8? 1\n', None), (b'RZZ?\n', None), (b'CMD?\n', None)]
        msg, script = msgs[case]
        s.msg = msg
        dev, wr, rem = run_once(w, 'TR', list(msg), cap=None, script=script)
        viol = None
        if wr.items or wr.ops:
            viol = f'writer calls {wr.ops} / output {show(wr.items)} for {msg!r}'
        return {'viol': viol, 'case': case}

    def on_leaf(s, out):
        rec = {'kind': out[0]}
        if out[0] == 'ok' and out[1]['viol']:
            rec['violations'] = [{'rule': 'OUTPUT', 'what': out[1]['viol'], 'input': s.msg.hex(), 'device': 'TR', 'script': None, 'writer': 'pass', 'role': f'OUTPUT:case{out[1]["case"]}',
                                  'case': out[1]['case']}]
        elif out[0] != 'ok':
            rec['violations'] = [{'rule': out[0].upper(), 'what': out[1], 'input': s.msg.hex(), 'device': 'TR', 'script': None, 'writer': 'pass', 'role': out[0].upper()}]
        rec['sample'] = {'message': repr(s.msg)}
        return rec


class CompoundResponseCheck:
    """C04 'in execution order ... then a newline and a flush': messages of 2..3 units out of {RBO?, RU8?, RST?, RT2?, CMD, ZZ (undefined), RU8? 1 (rejected)}
    through the pass-through writer; every successful query's response is followed by its own newline and its own flush before
    the next unit writes anything; nothing is written for the other units.  Return values are the handlers' defaults except RST?
    (a symbolic 1-byte string)."""
    UNITS = [('RBO?', 'q'), ('RU8?', 'q'), ('RST?', 'q'), ('RT2?', 'q'), ('CMD', 'c'), ('ZZ', 'x'), ('RU8? 1', 'x')]

    def __init__(s, world, params):
        s.w, s.ex = world, world.ex
        s.k = params.get('k', 3)
        s.twin = params.get('twin', False)

    def body(s):
        ex, w = s.ex, s.w
        n = ex.decide([(i, True) for i in range(2, s.k + 1)]) if s.k > 2 else 2
        picks = [ex.decide([(i, True) for i in range(len(s.UNITS))]) for _ in range(n)]
        trailing = ex.decide([(0, True), (1, True)]) == 1          # message ends with ';' before the terminator
        msg = ';'.join(s.UNITS[i][0] for i in picks) + (';' if trailing else '') + '\n'
        s.msg = msg
        dev = w.new_device('TR')
        wr = PassWriter()
        # the reference: each query alone gives its response (checked against the encoder by ResponseCheck)
        exp_segments = []
        cut = None              # number of response segments in front of the first faulty unit (C06: the units after it run all or not at all)
        for i in picks:
            if s.UNITS[i][1] == 'q':
                d2 = w.new_device('TR')
                w2 = PassWriter()
                w.run(d2, list((s.UNITS[i][0] + '\n').encode()), w2)
                exp_segments.append(list(w2.items))
            elif s.UNITS[i][1] == 'x' and cut is None:
                cut = len(exp_segments)
        w.run(dev, list(msg.encode()), wr)
        out = list(wr.items)
        exp = [x for seg in exp_segments for x in seg]
        if s.twin:
            exp = exp + [10]
        viol = None
        eq, m = sym_equal(ex, tuple(flat_item(x) for x in out), tuple(flat_item(x) for x in exp))
        if not eq and cut is not None and not s.twin:
            exp_segments = exp_segments[:cut]
            exp = [x for seg in exp_segments for x in seg]
            eq, m = sym_equal(ex, tuple(flat_item(x) for x in out), tuple(flat_item(x) for x in exp))
        if not eq:
            viol = (f'output {show(out)} differs from the responses of the queries one by one {show(exp)}', m)
        else:
            # flush discipline: walk the writer calls; after the bytes of segment j have been written the next call must be a flush
            pos, seg, bounds = 0, 0, []
            total = 0
            for sg in exp_segments:
                total += len(sg)
                bounds.append(total)
            written = 0
            need_flush = False
            for op in wr.ops:
                if op == ('F',):
                    if not need_flush:
                        viol = (f'a flush that does not follow a complete response: writer calls {wr.ops}', None)
                        break
                    need_flush = False
                else:
                    if need_flush:
                        viol = (f'the response of a query was not flushed before the next unit wrote: writer calls {wr.ops}', None)
                        break
                    written += op[1] if len(op) > 1 else 1
                    if written in bounds:
                        need_flush = True
            if viol is None and need_flush:
                viol = (f'the last response was not flushed: writer calls {wr.ops}', None)
        return {'viol': viol, 'msg': msg}

    def on_leaf(s, out):
        rec = {'kind': out[0]}
        v = None
        if out[0] == 'ok':
            v = out[1]['viol']
            rule = 'TWIN' if s.twin else 'COMPOUND'
        else:
            v = (out[1], None)
            rule = out[0].upper()
        if v:
            rec['violations'] = [{'rule': rule, 'what': f'{s.msg!r}: {v[0]}', 'input': s.msg.encode().hex(), 'device': 'TR', 'script': {}, 'writer': 'pass', 'role': f'{rule}:flush-or-order'}]
        if hash(tuple(map(str, s.ex.decisions))) % 37 == 0:
            rec['sample'] = {'message': s.msg}
        return rec


# ----------------------------------------------------------------------------- numbers through the capacity-limited writer
def _rust_float_text(x, ty):
    """Display of a finite f32/f64 in Rust: the shortest digits that round-trip, in positional notation (never an exponent)"""
    import struct
    from decimal import Decimal
    if ty == 'f32':
        import numpy as np
        d = Decimal(np.format_float_scientific(np.float32(x), unique=True, trim='-'))
    else:
        d = Decimal(repr(x))
    t = format(d, 'f')
    if '.' in t:
        t = t.rstrip('0').rstrip('.')
    if t in ('-0', '0') and str(x).startswith('-'):
        t = '-0'
    return t


NUMERIC_CASES = [
    ('RF64', 'f64', 1e32), ('RF64', 'f64', -1e31), ('RF64', 'f64', 1e100), ('RF64', 'f64', 1.2345678901234567e-15), ('RF64', 'f64', 1e-30), ('RF64', 'f64', 1.5), ('RF64', 'f64', -0.0),
    ('RF64', 'f64', 123456789012345680000.0), ('RF32', 'f32', 3.4028234663852886e38), ('RF32', 'f32', 1e-20), ('RF32', 'f32', 16777216.0), ('RF32', 'f32', -2.5),
    ('RU64', 'u64', 2 ** 64 - 1), ('RI64', 'i64', -2 ** 63), ('RI64', 'i64', 2 ** 63 - 1), ('RUS', 'usize', 2 ** 64 - 1), ('RIS', 'isize', -2 ** 63), ('RU32', 'u32', 2 ** 32 - 1),
    ('RI32', 'i32', -2 ** 31), ('RI16', 'i16', -32768), ('RU16', 'u16', 65535), ('RI8', 'i8', -128), ('RU8', 'u8', 255),
]


class NumericWriterCheck:
    """C04 'the bytes are the same for every writer that has room': concrete numeric extremes (long float texts, integer bounds) through the
    real Write impl of heapless::Vec<u8, 256> from MIR and through the pass-through writer; expected text from an independent formatter"""

    def __init__(s, world, params):
        s.w, s.ex = world, world.ex
        s.twin = params.get('twin', False)

    def body(s):
        import struct
        ex, w = s.ex, s.w
        i = ex.decide([(k, True) for k in range(len(NUMERIC_CASES))])
        q, ty, x = NUMERIC_CASES[i]
        s.case = NUMERIC_CASES[i]
        writer = ex.decide([(0, True), (1, True)])
        if ty in ('f32', 'f64'):
            bits = struct.unpack('<I', struct.pack('<f', x))[0] if ty == 'f32' else struct.unpack('<Q', struct.pack('<d', x))[0]
            val = FloatVal(bits, ty)
            text = _rust_float_text(x, ty)
            s.token = f'{ty}:{bits}'
        else:
            val = x
            text = str(x)
            s.token = f'int:{x}'
        dev = w.new_device('TR')
        dev.f[0].script[0] = ('ok', val)
        wr = PassWriter() if writer == 0 else HVec(256)
        s.writer = 'pass' if writer == 0 else 'heapless'
        w.run(dev, list((q + '?\n').encode()), wr)
        out = list(wr.items)
        exp = list(text.encode()) + [10] + ([10] if s.twin else [])
        got = bytes(x if isinstance(x, int) else 63 for x in out) if all(isinstance(x, int) for x in out) else None
        viol = None
        if got is None or list(got) != exp:
            viol = (f'response {show(out)} differs from the expected text {text}', None)
        elif errors_of(dev):
            viol = ('an error was reported for a successful query', None)
        return {'viol': viol}

    def on_leaf(s, out):
        rec = {'kind': out[0], 'query': s.case[0]}
        v = None
        if out[0] == 'ok':
            v = out[1]['viol']
            rule = 'TWIN' if s.twin else 'RESPONSE'
        else:
            v = (out[1], None)
            rule = out[0].upper()
        if v:
            rec['violations'] = [{'rule': rule, 'what': f'{s.case[0]}? returning {s.case[2]!r} through the {s.writer} writer: {v[0]}', 'input': (s.case[0] + '?\n').encode().hex(), 'device': 'TR',
                                  'script': {'0': ['ok', s.token]}, 'writer': s.writer, 'role': f'{rule}:numeric:{s.writer}'}]
        rec['sample'] = {'query': s.case[0] + '?', 'returned': repr(s.case[2]), 'writer': s.writer}
        return rec
