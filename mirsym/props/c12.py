"""C12 -- parser verdicts are final and depend only on the consumed bytes (DESIGN.md section 5, C12)."""
from ..runner import Inconclusive

SPEC = ('mirsym.checks.parse_level', 'ParseCheck')


def plan(tier):
    if tier == 'thorough':
        return dict(root_L=7, other_L=6, compl_L=5, t2_L=6, diff=0, per=3000)
    return dict(root_L=6, other_L=4, compl_L=4, t2_L=4, diff=400, per=900)


def check(run):
    pl = plan(run.tier)
    run.validate_translator(pl['diff'])
    cov = run.evidence['coverage']
    records = []
    complete_bounds = {}

    def go(name, params, seconds, required=True):
        st = run.explore(name, (SPEC[0], SPEC[1], params), seconds, required=required)
        records.extend(st['records'])
        return st

    # vacuity twin: the same machinery with a wrong oracle must find counterexamples
    st = run.explore('twin(L=3, wrong oracle)', (SPEC[0], SPEC[1], {'device': 'T1', 'L': 3, 'twin': True}), 120)
    twin_viol = sum(1 for r in st['records'] for v in r.get('violations', []) if v['rule'] == 'TWIN')
    cov['vacuity']['twin_violations'] = twin_viol
    if twin_viol == 0:
        raise Inconclusive('vacuity twin found nothing: the obligations are not being exercised')
    for L in range(1, pl['root_L'] + 1):
        st = go(f'parse T1 from root, L={L}, all 256 byte values', {'device': 'T1', 'L': L, 'completions': L <= pl['compl_L']}, pl['per'], required=(L <= 6))
        if st['complete']:
            complete_bounds['T1/root'] = L
    # deeper into the grammar with a concrete prefix: later arguments, later units
    for pre in ('C 1,', 'C 1 , ', 'C "a",', 'A:B;', 'C #11a,', 'U? '):
        for L in range(1, (5 if run.tier == 'thorough' else 4) + 1):
            go(f'parse T1 from root, prefix {pre!r} + {L} symbolic bytes', {'device': 'T1', 'L': L, 'prefix': pre}, pl['per'])
            complete_bounds['T1/root/prefix ' + pre] = L
    # inside payloads and length fields, with the completion family on incomplete and on rejected newline-terminated inputs
    for pre in ('K #1', 'K #2', 'K #21', 'S "a', "S 'a", 'A:K #1'):
        for L in range(1, (4 if run.tier == 'thorough' else 3) + 1):
            go(f'parse T1 from root, prefix {pre!r} + {L} symbolic bytes, completions', {'device': 'T1', 'L': L, 'prefix': pre, 'completions': True}, pl['per'])
            complete_bounds['T1/root/prefix ' + pre] = L
    for start in (['A'], ['A', 'X']):
        for L in range(1, pl['other_L'] + 1):
            go(f'parse T1 from {"/".join(start)}, L={L}', {'device': 'T1', 'start': start, 'L': L}, pl['per'])
            complete_bounds['T1/' + '/'.join(start)] = L
    for L in range(1, pl['t2_L'] + 1):
        go(f'parse T2 from root, L={L}', {'device': 'T2', 'L': L}, pl['per'])
        complete_bounds['T2/root'] = L
    cov['bounds'] = {'completed_input_length_per_tree_and_start_node': complete_bounds, 'byte_values': 'all 256 per byte',
                     'outside': 'inputs longer than the stated length; trees other than T1/T2; completions beyond the fixed family (O5)'}
    kinds = {}
    ante = {'O2_accept_with_remainder': 0, 'O5_incomplete': 0, 'O5_undecided': 0}
    viol = {}
    for r in records:
        kinds[r['kind']] = kinds.get(r['kind'], 0) + 1
        if r['kind'] == 'ok':
            ante['O2_accept_with_remainder'] += 1
        if r['kind'] == 'incomplete' and 'completion' in r:
            ante['O5_incomplete'] += 1
            if r['completion'] is None:
                ante['O5_undecided'] += 1
        for v in r.get('violations', []):
            if v['rule'] == 'TWIN':
                continue
            cur = viol.get(v['role'])
            if cur is None or len(v['input']) < len(cur['input']):
                viol[v['role']] = v
        if 'sample' in r and len(cov['samples']) < 12:
            cov['samples'].append({'input_class_witness': r['sample'], 'verdict': r['kind']})
    cov['leaf_verdicts'] = kinds
    cov['vacuity'].update(ante)
    cov['undecided'] = ante['O5_undecided']
    if ante['O2_accept_with_remainder'] == 0:
        raise Inconclusive('no accepting leaf: antecedent never exercised')
    run.evidence['assumptions'] = [
        'native models of core (slice/iterator/Option/Result helpers, from_utf8 DFA, eq_ignore_ascii_case, from_str_radix contract)',
        'path condition partitions all 256^L inputs; every leaf decided by z3 (QF_BV)',
        'O5 searches completions in a fixed family only; leaves without one are reported as undecided, not as failures',
    ]
    out = []
    for role, v in sorted(viol.items()):
        v = dict(v)
        v['property'] = 'C12'
        out.append(v)
    return {'violations': out, 'exhaustive': True}


def confirm(run, v):
    x = bytes.fromhex(v['input'])
    j = v.get('j')
    base = {'entry': 'parse', 'device': v['device'], 'start': v.get('start') or []}
    cases = [dict(base, input=x.hex())]
    if j is not None:
        cases.append(dict(base, input=x[:j].hex()))
    detail = {}
    ok_all = False      # reproduced in the dev or the release profile (both recorded)
    for rel in (False, True):
        obs = run.native(cases, release=rel)
        main = obs[0]
        pre = obs[1] if len(obs) > 1 else None
        rule = v['rule']
        if rule in ('PANIC', 'HANG'):
            ok = main.get('panic') is not None
        elif rule == 'O1':
            ok = 'ok' in main.get('parse', {}) and main['parse']['ok']['consumed'] < 1
        elif rule == 'O4':
            ok = ('ok' in main.get('parse', {}) and 'err' in pre.get('parse', {}) and pre['parse']['err'][0] != 'Incomplete'
                  and x[j - 1] == 10)
        elif rule in ('O2', 'O3'):
            ok = main.get('parse') != pre.get('parse')
        else:
            ok = False
        detail['release' if rel else 'dev'] = {'whole': main, 'prefix': pre, 'reproduced': ok}
        ok_all = ok_all or ok
    return ok_all, detail
