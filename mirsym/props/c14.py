"""C14 -- ambiguous command sets are rejected at compile time, never shadowed (DESIGN.md section 5, C14).

Two stages, both regenerated from /repo on every run:
  (1) symbolic: the proc-macro crate's own code -- Command::try_from, Command::paths, Tree::new / insert / insert_at, the derived
      Default of TreeNode -- is executed from its MIR dump on declaration lists whose letters, optional flags, lengths and kinds are
      symbolic; insert returning Err is what the macro unwraps into a compile error.  A reference expansion written from the
      property decides per leaf whether an earlier declaration shares a spelling of the same kind.
  (2) native: the real macro is run by rustc on generated one-interface crates (a concrete corpus of pairs incl. the built-in
      SYSTem:ERRor / SYSTem:VERSion commands, plus one witness per sampled symbolic leaf); the exit status per crate must equal
      the reference verdict.  This stage also covers the glue in lib.rs (`try_for_each(..).unwrap()`), which is syn code that the
      executor does not encode.
"""
import itertools
import json
import os

from ..runner import Inconclusive
from .. import build, compile_probe
from ..oracle import expand_decl

SPEC = ('mirsym.checks.macro_level', 'MacroCollisionCheck')
WORLD = 'macros'        # runner: only the proc-macro crate is needed; a device crate that no longer compiles must not hide the verdict

BUILTIN = {'ErrorCommands': ['SYSTem:ERRor:[NEXT]?', 'SYSTem:ERRor:COUNt?'], 'StandardCommands': ['SYSTem:VERSion?']}

CORPUS_DECLS = ['*IDN?', '*RST', 'A:B', 'A:B?', 'A:C', 'a:b', '[A]:B', 'A:[B]', 'A:[B]:C', 'A:C?', 'A', 'B', 'B?', 'AB:C', 'ABc:C', 'ABC:C', 'AB:Cd', 'AB:CD',
                'SYSTem:ERRor?', 'SYST:ERR:NEXT?', 'SYSTem:ERRor:[NEXT]', 'SYST:ERR:COUN?', 'SYSTem:VERS?', 'SYSTem:VERSion', 'SYSTem:ERRor:ALL?',
                'MEASure:VOLTage:[DC]?', 'MEAS:VOLT?', 'MEASure:VOLTage:AC?', '[SENSe]:VOLTage:RANGe', 'VOLT:RANG', 'SENS:VOLT:RANGE', 'VOLTage:RANGe?',
                'TRIGger:[SEQuence]:SOURce', 'TRIG:SOUR', 'TRIG:SEQ:SOUR?', 'TRIGger:SOURce?']
# mnemonics with characters that are neither upper nor lower case (numeric suffixes, '_', '*'), checked as given pairs and in the spelling differential
# white space around mnemonics inside a declaration is not part of the header (every mnemonic is trimmed)
BLANK_DECLS = ['A: B', 'A :C', ' A:B', 'A : B?', '[A] :B', 'SYSTem: VALue?', 'SYSTem :VERSion?']
SUFFIX_DECLS = ['OUTPut1:STATe', 'OUTPut2:STATe', 'OUTP1:STAT', 'OUTP:STAT', 'CHANnel1:VALue?', 'CHan1:VALue?', 'CHAN:VAL?', 'CH_a:X', 'CH_:X', 'CH:X', '*RST', 'RST', '*IDN?', 'IDN?',
                'MEAS2:VOLTage3?', 'MEAS:VOLT3?', 'MEAS2:VOLT?']


def ref_collides(a, b):
    qa, pa = expand_decl(a)
    qb, pb = expand_decl(b)
    return qa == qb and bool(set(pa) & set(pb))


def raw_paths(d):
    """every short/long/omitted combination, duplicates and the empty spelling kept"""
    paths = [()]
    for p in d.rstrip('?').split(':'):
        p = p.strip()
        if not p:
            continue
        opt = p.startswith('[') and p.endswith(']')
        p = p[1:-1] if opt else p
        short, long = ''.join(c for c in p if not c.islower()), p.upper()
        paths = [pre + f for pre in paths for f in ([(long,)] + ([(short,)] if short != long else []) + ([()] if opt else []))]
    return paths


def ref_self_ok(d):
    p = raw_paths(d)
    return len(p) == len(set(p)) and all(len(x) for x in p)


def ref_set_compiles(decls, attrs=()):
    allv = list(decls) + [b for a in attrs for b in BUILTIN[a]]
    return not any(ref_collides(x, y) for x, y in itertools.combinations(allv, 2))


def plan(tier):
    if tier == 'thorough':
        return dict(small=[dict(n=2, parts=2), dict(n=2, parts=3, queries_only=True), dict(n=3, parts=2, queries_only=True)], per=3000, corpus_pairs=None)
    return dict(small=[dict(n=2, parts=2)], per=900, corpus_pairs=600)


def check(run):
    pl = plan(run.tier)
    cov = run.evidence['coverage']
    from ..checks import macro_level as M
    try:
        ex = M.macro_world(run.paths)
    except Exception as e:
        raise Inconclusive('MIR dump of microscpi-macros could not be read: ' + repr(e))
    # ---- translator validation for the macro world: paths() from MIR == reference expansion; insert from MIR == real rustc verdict
    # ---- spelling differential: Command::try_from + paths executed from MIR vs the reference expansion, on concrete declarations.
    # A difference is turned into a witness pair (the declaration and the differing spelling declared literally) for the native stage.
    viol = {}
    spell_decls = [d for d in CORPUS_DECLS + SUFFIX_DECLS + BLANK_DECLS if ref_self_ok(d)] + ['Gh1_:I2', '[OPT]:[INNer]:LEAF?', 'TeST:A']
    try:
        got_sp = M.spelling_sets(ex, spell_decls)
    except Exception as e:
        raise Inconclusive('Command::try_from / paths could not be executed from MIR: ' + repr(e)[:300])
    witness_sets = []
    for d in spell_decls:
        want = set(raw_paths(d))
        have = set(got_sp[d])
        for sp in sorted(want ^ have):
            if not sp:
                continue
            lit = ':'.join(sp) + ('?' if d.endswith('?') else '')
            witness_sets.append({'decls': [d, lit], 'attrs': [], 'why': f"spelling {':'.join(sp)} of {d} is {'missing from' if sp in want else 'added to'} the macro's expansion"})
    cov['spelling_differential'] = {'declarations': len(spell_decls), 'differences': len(witness_sets)}
    import random
    rnd = random.Random(run.seed)
    sets = []
    pairs = list(itertools.permutations(CORPUS_DECLS + SUFFIX_DECLS, 2))
    pairs += [(a, b) for a in BLANK_DECLS for b in CORPUS_DECLS if ref_collides(a, b)] + [(b, a) for a in BLANK_DECLS for b in CORPUS_DECLS[:12]]
    rnd.shuffle(pairs)
    if pl['corpus_pairs']:
        # always keep the colliding pairs (they are the rarer class)
        coll = [p for p in pairs if ref_collides(*p)]
        pairs = coll + [p for p in pairs if not ref_collides(*p)][:max(0, pl['corpus_pairs'] - len(coll))]
    for a, b in pairs:
        sets.append({'decls': [a, b], 'attrs': []})
    for d in CORPUS_DECLS + SUFFIX_DECLS:
        sets.append({'decls': [d, d], 'attrs': []})        # the same header on two handlers
    for d in CORPUS_DECLS:
        for attrs in (['ErrorCommands'], ['StandardCommands'], ['ErrorCommands', 'StandardCommands']):
            sets.append({'decls': [d], 'attrs': attrs})
    for a, b in itertools.permutations(SUFFIX_DECLS, 2):
        if a.endswith('?') == b.endswith('?') and a.lstrip('*')[:2] == b.lstrip('*')[:2]:
            sets.append({'decls': [a, b], 'attrs': []})
    sets.extend(witness_sets)
    for tri in (['A:B', 'A:C', '[A]:C'], ['A:B', 'A:C', 'A:D'], ['A:B?', 'A:B', '[A]:B?'], ['AB:C', 'AD:C', 'ab:[E]:c'], ['[A]:B', '[C]:B', 'D:B']):
        sets.append({'decls': tri, 'attrs': []})
    try:
        got = compile_probe.compile_sets(sets)
    except build.BuildError as e:
        raise Inconclusive(str(e))
    n_coll = 0
    model_mismatch = []
    for st, (compiles, err) in zip(sets, got):
        want = ref_set_compiles(st['decls'], st['attrs'])
        n_coll += 0 if want else 1
        if compiles != want:
            role = 'NATIVE:' + ('accepted' if compiles else 'rejected')
            if st.get('why'):
                run.log('[spelling] ' + st['why'])
            what = (f"declarations {st['decls']} (+{st['attrs']}) share a spelling of the same kind but the crate compiles: a handler is silently shadowed" if compiles else
                    f"declarations {st['decls']} (+{st['attrs']}) share no spelling but the crate does not compile: {err}")
            cur = viol.get(role)
            if cur is None or len(str(st)) < len(str(cur['set'])):
                viol[role] = {'rule': 'NATIVE', 'what': what, 'decls': st['decls'], 'attrs': st['attrs'], 'set': st, 'input': '', 'role': role, 'expect_compiles': want}
        # the executor's model of String/Vec/HashMap/Rc against the real thing
        allv = list(st['decls']) + [b for a in st['attrs'] for b in BUILTIN[a]]
        res = M.run_concrete(ex, allv)
        if (res[-1] == 'Ok') != compiles and compiles == want:
            model_mismatch.append((allv, res, compiles))
    cov['differential'] = {'cases': len(sets), 'colliding_sets': n_coll, 'mismatches': len(model_mismatch), 'what': 'Tree::insert executed from MIR vs exit status of rustc on the generated crate'}
    cov['traces_validated_against_impl'] += len(sets)
    if model_mismatch:
        raise Inconclusive('Tree::insert executed from MIR disagrees with the real macro on ' + json.dumps(model_mismatch[:2])[:400])
    # ---- "never shadowed" at run time: in every set that compiles, every reference spelling of every declaration reaches its own handler
    ok_sets = [st for st, (compiles, err) in zip(sets, got) if compiles and ref_set_compiles(st['decls'], st['attrs']) and all(ref_self_ok(d) for d in st['decls'])]
    # (a declaration written in lower case only has an empty short form: no header spells it, such "spellings" are not sent)
    ok_sets = ok_sets[:400 if run.tier != 'thorough' else 1500]
    spell = [[[':'.join(pth) + ('?' if d.endswith('?') else '') for pth in sorted(set(raw_paths(d))) if all(pth)] for d in st['decls']] for st in ok_sets]
    try:
        fails = compile_probe.run_sets(ok_sets, spell)
    except build.BuildError as e:
        raise Inconclusive(str(e))
    n_sp = sum(len(x) for sp in spell for x in sp)
    cov['runtime_spellings'] = {'sets': len(ok_sets), 'spellings_sent_through_Interface_run': n_sp, 'failures': len(fails)}
    cov['traces_validated_against_impl'] += n_sp
    for f in fails:
        st = ok_sets[f['set']]
        role = 'RUNTIME:spelling'
        cur = viol.get(role)
        if cur is None or len(str(st)) < len(str(cur['set'])):
            viol[role] = {'rule': 'RUNTIME', 'what': f"in the compiling set {st['decls']} (+{st['attrs']}) the spelling {f['spelling']!r} of declaration {f['decl']} does not reach its own handler exactly once "
                                                     f"(handler hits {f['hits']}, errors {f['errors']})", 'decls': st['decls'], 'attrs': st['attrs'], 'set': st, 'input': f['spelling'].encode().hex(),
                          'decl': f['decl'], 'spelling': f['spelling'], 'role': role}
    run.log(f'[native] {n_sp} reference spellings of {len(ok_sets)} compiling sets sent through Interface::run: {len(fails)} did not reach exactly their own handler')
    run.log(f'[native] {len(sets)} generated crates ({n_coll} colliding by the reference): rustc verdict == reference == MIR execution' if not viol else f'[native] {len(viol)} disagreement(s) between rustc and the reference')
    # ---- symbolic stage
    records = []

    def go(name, params, seconds, required=True):
        st = run.explore(name, (SPEC[0], SPEC[1], params), seconds, required=required)
        records.extend(st['records'])
        return st
    st = run.explore('twin (n=2, 1 part, inverted oracle)', (SPEC[0], SPEC[1], {'n': 2, 'parts': 1, 'twin': True}), 120)
    twin = sum(1 for r in st['records'] for v in r.get('violations', []) if v['rule'] == 'TWIN')
    cov['vacuity']['twin_violations'] = twin
    if twin == 0:
        raise Inconclusive('vacuity twin found nothing: the obligations are not being exercised')
    bounds = {}
    for i, p in enumerate(pl['small']):
        stt = go(f"{p['n']} declarations of 1..{p['parts']} parts, letters symbolic over A/B and a/b, optional flags" + (' forked, queries only' if p.get('queries_only') else ' and kinds forked'),
                 dict(p, mode='small'), pl['per'], required=(i == 0))
        if stt['complete']:
            bounds[f"small n={p['n']}"] = p['parts']
    go('2 queries of 1..2 parts: one letter A/B, optional a/b, optional trailing 1/2/_ (characters without case), optional flags forked',
       {'n': 2, 'parts': 2, 'mode': 'small', 'digits': True, 'queries_only': True}, pl['per'])
    templates = BUILTIN['ErrorCommands'] + BUILTIN['StandardCommands'] + ['MEASure:VOLTage:[DC]?', '[SENSe]:VOLTage:RANGe', 'TRIGger:[SEQuence]:SOURce', '*IDN?']
    for t in templates:
        go(f'declaration near {t} (letters symbolic over the template letter or Q/q, short or long part, optional flags, prefix length, kind; either order)',
           {'mode': 'near', 'templates': [t]}, pl['per'])
    bounds['near_templates'] = templates
    cov['bounds'] = {'completed': bounds, 'letters': 'small: A/B upper, a/b lower, 1..2 upper + 0..1 lower per part; near: template letter or Q/q',
                     'outside': 'more than 3 declarations in the symbolic stage; longer mnemonics than the templates; non-ASCII letters (to_uppercase / is_lowercase are modelled for ASCII only); '
                                'declarations that collide with themselves or have an empty spelling (e.g. [A]:[A], [A]) -- outside the quantifier (pairs of declarations), classed degenerate and skipped; '
                                'the syn-based glue of lib.rs is covered natively (stage 2), not symbolically'}
    classes = {}
    samples = []
    for r in records:
        classes[r.get('class', r['kind'])] = classes.get(r.get('class', r['kind']), 0) + 1
        for v in r.get('violations', []):
            if v['rule'] == 'TWIN':
                continue
            cur = viol.get(v['role'])
            if cur is None or len(v['input']) < len(cur.get('input') or 'x' * 999):
                viol[v['role']] = v
        if 'sample' in r and r['sample'].get('class') in ('collide', 'free'):
            samples.append(r['sample'])
    cov['leaf_classes'] = classes
    cov['vacuity'].update({'colliding_leaves': classes.get('collide', 0), 'collision_free_leaves': classes.get('free', 0)})
    if not classes.get('collide') or not classes.get('free'):
        raise Inconclusive('a class of leaves (colliding / collision-free) was never reached')
    # ---- witnesses of sampled leaves through the real macro
    rnd.shuffle(samples)
    samples = samples[:120 if run.tier == 'thorough' else 40]
    if samples:
        got = compile_probe.compile_sets([s['declarations'] for s in samples])
        for s, (compiles, err) in zip(samples, got):
            want = s['insert_results'][-1] == 'Ok'
            if compiles != want:
                raise Inconclusive(f"witness {s['declarations']}: MIR execution says {s['insert_results']} but rustc says compiles={compiles}: the encoding does not match the real macro")
        cov['traces_validated_against_impl'] += len(samples)
        cov['samples'] = [{'declarations': s['declarations'], 'class': s['class'], 'rustc_compiles': s['insert_results'][-1] == 'Ok'} for s in samples[:12]]
        run.log(f'[native] {len(samples)} leaf witnesses compiled with the real macro: verdicts equal')
    run.evidence['assumptions'] = [
        'models of std String / Vec / HashMap / Rc / str::split / to_uppercase / is_lowercase (ASCII) in mirsym/natives_std.py, validated each run against rustc running the real macro',
        'the macro turns Err from Tree::insert into a compile error (lib.rs: try_for_each(..).unwrap()) -- observed natively on every colliding corpus set',
        'reference expansion (short = non-lower-case letters, long = upper-cased, optional parts may be omitted) written from the property and the README',
    ]
    out = []
    for role, v in sorted(viol.items()):
        v = dict(v)
        v['property'] = 'C14'
        out.append(v)
    return {'violations': out, 'exhaustive': True}


def confirm(run, v):
    if v['rule'] == 'RUNTIME':
        st = {'decls': v['decls'], 'attrs': v.get('attrs') or []}
        sp = [[v['spelling']] if k == v['decl'] else [] for k in range(len(v['decls']))]
        # the macro iterates over HashMaps: which of two clashing children comes first can differ from one expansion to the next,
        # so a run-time mismatch is re-tried over a few fresh expansions
        fails, tries = [], 0
        for tries in range(1, 7):
            fails = compile_probe.run_sets([st], [sp], salt=f'expansion {tries}')
            if fails:
                break
        return bool(fails), {'declarations': v['decls'], 'attrs': st['attrs'], 'spelling': v['spelling'], 'observed': fails, 'expansions_tried': tries}
    decls = v['decls']
    attrs = v.get('attrs') or []
    want = ref_set_compiles(decls, attrs)
    if not all(ref_self_ok(d) for d in decls):
        return None, {'reason': 'degenerate declaration'}
    (compiles, err), = compile_probe.compile_sets([{'decls': decls, 'attrs': attrs}])
    detail = {'declarations': decls, 'attrs': attrs, 'reference_says_compiles': want, 'rustc_compiles': compiles, 'error': err}
    return compiles != want, detail
