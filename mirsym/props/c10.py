"""C10 -- process answers before it reads on, and ends only on a transport error (DESIGN.md section 5, C10)."""
from ..runner import Inconclusive

ABS = ('mirsym.checks.abstract_process', 'AbstractProcess')
FREE = ('mirsym.checks.process_level', 'FreeCheck')
EQ = ('mirsym.checks.process_level', 'ProcessEquiv')


def check(run):
    thorough = run.tier == 'thorough'
    run.validate_translator(0 if thorough else 400)
    cov = run.evidence['coverage']
    records = []
    st = run.explore('twin', ABS + ({'S': 3, 'N': 2, 'twin': True},), 300)
    tv = sum(1 for r in st['records'] if r.get('violations'))
    cov['vacuity']['twin_violations'] = tv
    if tv == 0:
        raise Inconclusive('vacuity twin found nothing')
    done = []
    for (S, N) in (((3, 2), (4, 2), (4, 3), (5, 3), (5, 4), (6, 4)) if thorough else ((3, 2), (4, 2), (4, 3))):
        st = run.explore(f'uninterpreted run, fault-free: ordering of write/flush/read, N={N}, S={S}, all chunkings', ABS + ({'S': S, 'N': N, 'mode': 'equiv'},), 2400 if thorough else 300)
        records.extend(st['records'])
        st = run.explore(f'uninterpreted run, transport error at every call position, N={N}, S={S}, all chunkings', ABS + ({'S': S, 'N': N, 'mode': 'fault'},),
                         3000 if thorough else 400, required=(S <= 4))
        records.extend(st['records'])
        if st['complete']:
            done.append({'S': S, 'N': N})
    # real run on T1: the same ordering monitor on the real adapter trace is part of C07's explorations; here the real responses
    wrote = 0
    for N, S in (((5, 5), (6, 5), (6, 6), (8, 6)) if thorough else ((5, 5), (6, 5))):
        st = run.explore(f'real run: ordering monitor on the real adapter trace, process T1 N={N}, streams of {S} bytes over * Q ? LF X ; (queries answer 7), all chunkings',
                         FREE + ({'entry': 'process', 'L': S, 'N': N, 'alphabet': [ord(c) for c in '*Q?\nX;']},), 900)
        records.extend(st['records'])
        wrote += sum(1 for r in st['records'] if r.get('wrote'))
    LIB = ('mirsym.checks.process_level', 'LibraryProcess')
    st = run.explore('real run: streams of 1..2 library messages (answered queries, failing queries, commands, faults), N=16, whole / byte-wise / every one and two cut positions (every chunking for streams up to 8 bytes): exactly one write + flush per answered message, nothing else written',
                     LIB + ({'k': 2, 'N': 16, 'max_len': 16},), 1200)
    records.extend(st['records'])
    st = run.explore('real run: streams of 1..2 library messages, whole or byte-wise, a transport error injected at every call position of the real read / write / flush sequence: returned unchanged, at once, never Ok',
                     LIB + ({'k': 2, 'N': 16, 'max_len': 16, 'fault': True},), 1200)
    records.extend(st['records'])
    for N in (6, 8):
        st = run.explore(f'real run: streams of 1..3 library messages of at most {N} bytes each, N={N}, one message per read (a controller that waits for each answer) or as much as fits per read: '
                         'every answered message is answered before the next read (buffer fill levels that add up to exactly N included)', LIB + ({'k': 3, 'N': N, 'max_len': 24, 'lockstep': True},), 900)
        records.extend(st['records'])
    cov['vacuity']['real_run_executions_that_wrote_a_response'] = wrote
    if wrote == 0:
        raise Inconclusive('no real-run execution produced a response')
    viol = {}
    fired = 0
    for r in records:
        if r.get('fired'):
            fired += 1
        for v in r.get('violations', []):
            if v['rule'] in ('TWIN', 'CHUNKING'):     # chunking-dependence is C07's subject
                continue
            cur = viol.get(v['role'])
            if cur is None or len(v['input']) < len(cur['input']):
                if cur is not None and v.get('abstract'):
                    v['alternatives'] = cur.get('alternatives', [])
                viol[v['role']] = v
            elif v.get('abstract') and len(cur.setdefault('alternatives', [])) < 60:
                key = (v['pattern'], tuple(v.get('chunks') or ()), v['n'], v.get('fault'))
                if key not in cur.setdefault('_keys', set()):
                    cur['_keys'].add(key)
                    cur['alternatives'].append({k: v[k] for k in ('pattern', 'chunks', 'n', 'fault')})
        if 'sample' in r and len(cov['samples']) < 12:
            cov['samples'].append(r['sample'])
    cov['vacuity']['executions_in_which_the_injected_error_fired'] = fired
    if fired == 0:
        raise Inconclusive('no execution reached the injected transport error')
    cov['bounds'] = {'completed': done, 'fault_positions': 'every adapter call index 0..4S+1', 'responses': '0..1 bytes per run call',
                     'outside': 'longer streams / larger N; responses longer than one byte in the uninterpreted model (real responses are covered by C07/C04)'}
    run.evidence['assumptions'] = ['uninterpreted run: deterministic function of its input returning a suffix and at most one response byte',
                                   'adapter contract: read returns n <= dst.len()']
    for v in viol.values():
        v.pop('_keys', None)
    return {'violations': [dict(v, property='C10') for _, v in sorted(viol.items())], 'exhaustive': True}


def confirm(run, v):
    from ..checks.abstract_process import find_real_instance
    if v['rule'] in ('LIBRARY', 'LIBFAULT'):
        from ..checks.process_level import confirm_library
        return confirm_library(run, v)
    if v.get('abstract'):
        return find_real_instance(run, v)
    from .c05 import confirm as c5
    return c5(run, v)
