"""C06 -- a faulty message is reported once and never affects later messages (DESIGN.md section 5, C06)."""
from ..runner import Inconclusive
from .generic import calls

SPEC = ('mirsym.checks.run_level', 'FaultCheck')


def check(run):
    thorough = run.tier == 'thorough'
    run.validate_translator(0 if thorough else 400)
    cov = run.evidence['coverage']
    st = run.explore('twin (oracle demanding two error reports)', SPEC + ({'entry': 'run', 'twin': True},), 300)
    tv = sum(1 for r in st['records'] if r.get('violations'))
    cov['vacuity']['twin_violations'] = tv
    if tv == 0:
        raise Inconclusive('vacuity twin found nothing')
    records = []
    tl = 6 if thorough else 4
    plans = [('run, one buffer', {'entry': 'run', 'tail': tl}), ('process N=64, one byte per read', {'entry': 'process', 'chunk': 1, 'tail': tl}),
             ('process N=64, whole stream per read', {'entry': 'process', 'chunk': 64, 'tail': 3})]
    plans += [(f'process N=64, {c} bytes per read', {'entry': 'process', 'chunk': c, 'tail': 4 if thorough else 2}) for c in (2, 3, 5, 7)]
    plans += [('two faulty messages in a row, run, one buffer', {'entry': 'run', 'tail': 1, 'double': True}),
              ('two faulty messages in a row, process N=64, one byte per read', {'entry': 'process', 'chunk': 1, 'tail': 1, 'double': True}),
              ('two faulty messages in a row, process N=64, 5 bytes per read', {'entry': 'process', 'chunk': 5, 'tail': 1, 'double': True})]
    for name, params in plans:
        st = run.explore('streams [":X\\n"] faulty-message ":C;:A:Q?\\n", fault kind x position x shape, ' + name, SPEC + (params,), 600)
        records.extend(st['records'])
    viol = {}
    per_kind = {}
    for r in records:
        if r.get('fault'):
            per_kind[r['fault']] = per_kind.get(r['fault'], 0) + 1
        for v in r.get('violations', []):
            cur = viol.get(v['role'])
            if cur is None or len(v['input']) < len(cur['input']):
                viol[v['role']] = v
        if 'sample' in r and len(cov['samples']) < 12:
            cov['samples'].append(r['sample'])
    cov['vacuity']['leaves_per_fault_kind'] = per_kind
    if len(per_kind) < 9:
        raise Inconclusive('not every fault kind was exercised: ' + str(per_kind))
    cov['bounds'] = {'device': 'T1', 'fault_kinds': list(per_kind), 'symbolic': 'the offending byte (all non-header, non-separator values), the undefined mnemonic letter (any undeclared letter, either case), '
                     'the out-of-range numeral (all 3-digit values > 255), the handler error number (all i16)', 'message_shapes': '[F], [v;F], [F;v], [v;F;v], faulty unit absolute or relative to A; with and without a preceding message; followed by the relative message "C;A:Q?"; '
                     f'parse-level faults are followed by a tail of 0..{tl} arbitrary bytes (all values but LF)',
                     'faults_in_common_commands': '*R?  *Q  *R 1', 'two_faulty_messages': 'a second faulty message (7 kinds) right behind the first (8 kinds x 4 shapes)',
                     'outside': 'more than two faulty messages in one stream; faults inside string/block payloads; trees other than T1'}
    run.evidence['assumptions'] = ['admissible outcomes: units before the fault, (the handler itself for a handler error), exactly one error, then all or none of the units after it; '
                                   'every other message as if sent alone; the only response is that of the last message']
    return {'violations': [dict(v, property='C06') for _, v in sorted(viol.items())], 'exhaustive': True}


def confirm(run, v):
    if v['entry'] == 'run':
        case = {'entry': 'run', 'device': v['device'], 'input': v['input'], 'cap': 64, 'script': v.get('script')}
    else:
        case = {'entry': 'process', 'device': v['device'], 'input': v['input'], 'n': 64, 'chunks': [], 'tail': v.get('chunk', 1), 'script': v.get('script')}
    detail = {}
    ok_all = False      # reproduced in the dev or the release profile (both recorded)
    for rel in (False, True):
        obs = run.native([case], release=rel)[0]
        if v['rule'] in ('PANIC', 'HANG'):
            ok = obs.get('panic') is not None
        else:
            got = [[e[0], e[1]] if e[0] == 'call' else ['err', e[1]] for e in obs.get('events', [])]
            ok = True
            for seq in v['admissible']:
                if len(seq) == len(got) and all(a[0] == b[0] and (a[0] == 'err' or a[1] == b[1]) for a, b in zip(seq, got)):
                    if obs.get('out') == b'7\n'.hex():
                        ok = False
        detail['release' if rel else 'dev'] = {'observation': obs, 'reproduced': ok}
        ok_all = ok_all or ok
    return ok_all, detail
