"""C07 -- process depends only on the byte stream, not on how it arrives (DESIGN.md section 5, C07)."""
from ..runner import Inconclusive

EQ = ('mirsym.checks.process_level', 'ProcessEquiv')
ABS = ('mirsym.checks.abstract_process', 'AbstractProcess')


def check(run):
    thorough = run.tier == 'thorough'
    run.validate_translator(0 if thorough else 400)
    cov = run.evidence['coverage']
    records = []
    st = run.explore('twin (demands identical read traces)', EQ + ({'S': 3, 'N': 3, 'twin': True},), 300)
    tv = sum(1 for r in st['records'] if r.get('violations'))
    cov['vacuity']['twin_violations'] = tv
    if tv == 0:
        raise Inconclusive('vacuity twin found nothing')
    plan = []
    # (b) end to end with the real run
    for N in ((2, 3, 4, 5, 6, 8) if thorough else (2, 3, 4, 6)):
        for S in range(1, (5 if thorough else 4) + 1):
            if not thorough and N == 6 and S == 4:
                continue
            pend = 1 if (thorough or S <= 3 or N <= 3) else 0
            plan.append((f'real run: process T1 N={N}, stream length {S} (last byte LF), all chunkings + 1 empty read vs byte-at-a-time vs run per message'
                         + ('; one Pending injection at every adapter call position' if pend else ''),
                         EQ + ({'S': S, 'N': N, 'pending': pend},), 2400 if thorough else 600, S <= 4))
    if thorough:
        plan.append(('real run: process T1 N=3, stream length 5', EQ + ({'S': 5, 'N': 3, 'pending': 0},), 2400, False))
    if thorough:
        plan.append(('real run: process T1 N=4, stream length 6', EQ + ({'S': 6, 'N': 4, 'pending': 0},), 3000, False))
        plan.append(('real run: streams not ending in LF, N=3, S=4', EQ + ({'S': 4, 'N': 3, 'pending': 2, 'force_nl': False},), 2400, True))
    two = (b'A:X:Q?\n' * 2).hex()
    plan.append(('real run: two string queries "A:X:Q?" whose answers (13 bytes each) fit the response buffer one at a time but not together, N=16, whole / byte-wise / every one and two cut positions (every chunking for streams up to 8 bytes) of the 14-byte stream',
                 EQ + ({'S': 14, 'N': 16, 'concrete': two, 'long_answers': True, 'pending': 0, 'max_empty': 0},), 900, True))
    if thorough:
        plan.append(('real run: "X;A:X:Q?" then "A:X:Q?", long answers, N=24', EQ + ({'S': 16, 'N': 24, 'concrete': (b'X;A:X:Q?\nA:X:Q?\n').hex(), 'long_answers': True, 'pending': 0, 'max_empty': 0},), 2400, False))
    LIB = ('mirsym.checks.process_level', 'LibraryProcess')
    plan.append(('real run: streams of 1..2 messages from a library of 13 realistic messages (queries, failing queries, execution faults after the path moved, relative follow-ups, strings), N=16, whole / byte-wise / every one and two cut positions (every chunking for streams up to 8 bytes): '
                 'handlers and responses must be those of the messages taken one at a time', LIB + ({'k': 2, 'N': 16, 'max_len': 16},), 1500, True))
    plan.append(('real run: library streams of up to 8 bytes, N=16, every chunking', LIB + ({'k': 2, 'N': 16, 'max_len': 8, 'all_chunkings': True},), 900, True))
    done_b = []
    for name, spec, secs, req in plan:
        st = run.explore(name, spec, secs, required=req)
        records.extend(st['records'])
        if st['complete']:
            done_b.append(spec[2])
    # (a) compositional: run replaced by an uninterpreted deterministic function of the stream range
    abs_done = []
    for (S, N) in (((4, 2), (4, 3), (5, 3), (5, 4), (6, 4), (6, 5)) if thorough else ((4, 2), (4, 3), (5, 3))):
        st = run.explore(f'uninterpreted run: process N={N}, {S} symbolic stream bytes, every chunking, every consumed length, responses of 0..1 bytes, Pending at one adapter call',
                         ABS + ({'S': S, 'N': N, 'mode': 'equiv'},), 3000 if thorough else 420, required=(S <= 4))
        for r in st['records']:
            r['abstract'] = True
        records.extend(st['records'])
        if st['complete']:
            abs_done.append({'S': S, 'N': N})
    viol = {}
    n_equiv = 0
    for r in records:
        if r.get('run_equiv_checked'):
            n_equiv += 1
        for v in r.get('violations', []):
            if v['rule'] == 'TWIN':
                continue
            cur = viol.get(v['role'])
            if cur is None or len(v['input']) < len(cur['input']):
                if cur is not None and v.get('abstract'):
                    v['alternatives'] = cur.get('alternatives', [])
                viol[v['role']] = v
            elif v.get('abstract') and len(cur.setdefault('alternatives', [])) < 60:
                key = (v['pattern'], tuple(v.get('chunks') or ()), v['n'], v.get('fault'))
                if key not in cur.setdefault('_keys', set()):
                    cur['_keys'].add(key)
                    cur['alternatives'].append({k: v[k] for k in ('pattern', 'chunks', 'n', 'fault')})
        if 'sample' in r and len(cov['samples']) < 12:
            cov['samples'].append(r['sample'])
    cov['vacuity']['leaves_compared_with_run_per_message'] = n_equiv
    cov['bounds'] = {'real_run_completed': done_b, 'uninterpreted_run_completed': abs_done, 'alphabet': 'ABCXQ*R:;? LF (header resolution looks at no other class)',
                     'pending': 'one (two in thorough) suspended adapter call at every position + every async handler suspended once',
                     'outside': 'longer streams, larger N, more than two suspensions per execution, messages with inner newlines for the run-per-message comparison'}
    run.evidence['assumptions'] = ['adapter contract: read returns n <= dst.len(); end of stream is reported as a transport error',
                                   'uninterpreted run: any deterministic function of the bytes it is given that returns a suffix (both facts are checked on the real run in C05/C12)',
                                   'handlers: stubs returning Ok (queries answer 7)']
    for v in viol.values():
        v.pop('_keys', None)
    return {'violations': [dict(v, property='C07') for _, v in sorted(viol.items())], 'exhaustive': True}


def confirm(run, v):
    if v['rule'] == 'LIBRARY':
        from ..checks.process_level import confirm_library
        return confirm_library(run, v)
    if v.get('abstract'):
        from ..checks.abstract_process import find_real_instance
        return find_real_instance(run, v)
    base = {'entry': 'process', 'device': v['device'], 'input': v['input'], 'n': v['n']}
    if v.get('long_answers'):
        base['script'] = {str(i): ['ok', 'str:' + b'0123456789'.hex()] for i in range(8)}
    detail = {}
    ok_all = False      # reproduced in the dev or the release profile (both recorded)
    for rel in (False, True):
        a = run.native([dict(base, chunks=v.get('chunks') or [], tail=1)], release=rel)[0]
        b = run.native([dict(base, chunks=[], tail=1)], release=rel)[0]
        if v['rule'] in ('PANIC', 'HANG'):
            ok = a.get('panic') is not None or b.get('panic') is not None
        elif v['rule'] == 'CHUNKING':
            ok = (a.get('events'), a.get('out')) != (b.get('events'), b.get('out'))
        elif v['rule'] == 'PENDING':
            k = v.get('pend_k', 0)
            c = run.native([dict(base, chunks=[], tail=1, pend=list(range(0, 40)), hpend=1)], release=rel)[0]
            ok = (c.get('events'), c.get('out')) != (b.get('events'), b.get('out'))
            a = c
        elif v['rule'] == 'RUN_EQUIV':
            data = bytes.fromhex(v['input'])
            msgs = [m + b'\n' for m in data.split(b'\n')[:-1]]
            ev, out = [], ''
            # one device across messages is not expressible as separate native cases: replay as one run call per message on fresh
            # devices is only equivalent for handler logs, so compare logs and outputs message by message
            for m in msgs:
                o = run.native([{'entry': 'run', 'device': v['device'], 'input': m.hex(), 'cap': v['n'], 'script': base.get('script')}], release=rel)[0]
                ev += o.get('events', [])
                out += o.get('out', '')
            ok = ([e for e in b.get('events', [])], b.get('out')) != (ev, out)
            a = {'events': ev, 'out': out}
        else:
            ok = False
        detail['release' if rel else 'dev'] = {'schedule_or_reference': a, 'byte_at_a_time': b, 'reproduced': ok}
        ok_all = ok_all or ok
    return ok_all, detail
