"""Native confirmation shared by the run-level properties: the violation carries the concrete case and what the
property expects of the real code's observation."""
import json


def calls(obs):
    return [e[1] for e in obs.get('events', []) if e[0] == 'call']


def errs(obs):
    return [e[1] for e in obs.get('events', []) if e[0] == 'err']


def run_cases_confirm(run, v):
    """v['input'] (hex) on v['device'] through run; expectation kinds:
       PANIC/HANG: real code panics/hangs;  PATH: per-message expected handler lists (v['expected']) are not what the real code calls"""
    case = {'entry': 'run', 'device': v['device'], 'input': v['input'], 'cap': v.get('cap', 64)}
    if v.get('script'):
        case['script'] = v['script']
    detail = {}
    ok_all = False      # reproduced in the dev or the release profile (both recorded)
    for rel in (False, True):
        obs = run.native([case], release=rel)[0]
        rule = v['rule']
        if rule in ('PANIC', 'HANG'):
            ok = obs.get('panic') is not None
        elif rule == 'PATH':
            from ..oracle import judge_path
            ok = judge_path(v['expected'], v['nunits'], calls(obs)) is not None
        else:
            ok = False
        detail['release' if rel else 'dev'] = {'observation': obs, 'reproduced': ok}
        ok_all = ok_all or ok
    return ok_all, detail
