"""C02 -- header path context follows the SCPI compound-message rules (DESIGN.md section 5, C02)."""
from ..runner import Inconclusive
from .generic import run_cases_confirm

SPEC = ('mirsym.checks.run_level', 'PathContextCheck')


def check(run):
    thorough = run.tier == 'thorough'
    run.validate_translator(0 if thorough else 400)
    cov = run.evidence['coverage']
    st = run.explore('twin (oracle without terminator reset)', SPEC + ({'units': 2, 'mnems': 2, 'twin': True},), 300)
    tv = sum(1 for r in st['records'] if r.get('violations'))
    cov['vacuity']['twin_violations'] = tv
    if tv == 0:
        raise Inconclusive('vacuity twin found nothing')
    records = []
    plans = [('messages of 1..3 units (relative/absolute/common, 1..2 mnemonics, query or not, optional trailing ";"), every mnemonic letter symbolic over {A,C,X,Q,Z}, followed by the probe message "C\\n"',
              {'units': 3, 'mnems': 2, 'second': 'probe'}, 900)]
    if thorough:
        plans.append(('messages of 1..2 units with up to 3 mnemonics, second message symbolic (3 shapes, optional empty message in between)',
                      {'units': 2, 'mnems': 3, 'second': 'symbolic', 'letters': 'ABCXQZ'}, 2400))
        plans.append(('messages of 1..3 units, letters over {A,B,C,X,Q,Z}', {'units': 3, 'mnems': 2, 'second': 'probe', 'letters': 'ABCXQZ'}, 2400))
    for name, params, secs in plans:
        st = run.explore(name, SPEC + (params,), secs)
        records.extend(st['records'])
    viol = {}
    n_calls = 0
    for r in records:
        n_calls += 1 if r.get('n_calls') else 0
        for v in r.get('violations', []):
            cur = viol.get(v['role'])
            if cur is None or len(v['input']) < len(cur['input']):
                viol[v['role']] = v
        if 'sample' in r and len(cov['samples']) < 12:
            cov['samples'].append({'message_class_witness': r['sample'], 'handlers_called': r.get('n_calls')})
    cov['vacuity']['leaves_with_handler_calls'] = n_calls
    if n_calls == 0:
        raise Inconclusive('no leaf invoked a handler')
    cov['bounds'] = {'device': 'T1 (same mnemonic at several levels: C, A:C, A:X:C; X, A:X)', 'units_per_message': 3, 'mnemonics_per_header': 3 if thorough else 2,
                     'messages_per_buffer': '2 (3 with an empty message in thorough)', 'entry': 'Interface::run, one buffer',
                     'outside': 'longer messages, other trees, white space variants (C11), arguments (C03); through process the statement follows from C07'}
    run.evidence['assumptions'] = ['reference resolver: SCPI-99 6.2.4 path rules written from the property statement (mirsym/oracle.py ref_message)',
                                   'reference tree expanded from the declaration strings independently of the macro',
                                   'handlers are recording stubs returning Ok']
    out = []
    for role, v in sorted(viol.items()):
        v = dict(v, property='C02')
        out.append(v)
    return {'violations': out, 'exhaustive': True}


def confirm(run, v):
    return run_cases_confirm(run, v)
