"""C02 -- header path context follows the SCPI compound-message rules (DESIGN.md section 5, C02)."""
from ..runner import Inconclusive
from .generic import run_cases_confirm

SPEC = ('mirsym.checks.run_level', 'PathContextCheck')


def check(run):
    thorough = run.tier == 'thorough'
    run.validate_translator(0 if thorough else 400)
    cov = run.evidence['coverage']
    st = run.explore('twin (oracle without terminator reset)', SPEC + ({'units': 2, 'mnems': 2, 'twin': True},), 300)
    tv = sum(1 for r in st['records'] if r.get('violations'))
    cov['vacuity']['twin_violations'] = tv
    if tv == 0:
        raise Inconclusive('vacuity twin found nothing')
    records = []
    plans = [('messages of 1..3 units (relative/absolute/common, 1..2 mnemonics, query or not, optional trailing ";"), every mnemonic letter symbolic over {A,C,X,Q,Z}, followed by the probe message "C\\n"',
              {'units': 3, 'mnems': 2, 'second': 'probe'}, 900)]
    if thorough:
        plans.append(('messages of 1..2 units with up to 3 mnemonics, second message symbolic (3 shapes, optional empty message in between)',
                      {'units': 2, 'mnems': 3, 'second': 'symbolic', 'letters': 'ABCXQZ'}, 2400))
        plans.append(('messages of 1..3 units, letters over {A,B,C,X,Q,Z}', {'units': 3, 'mnems': 2, 'second': 'probe', 'letters': 'ABCXQZ'}, 2400))
    for name, params, secs in plans:
        st = run.explore(name, SPEC + (params,), secs)
        records.extend(st['records'])
    TP = ('mirsym.checks.run_level', 'ConcretePathCheck')
    st = run.explore('T3 (short/long forms, optional nodes, standard commands): every message of 1..%d units from a library of 31 absolute / relative / common headers + relative probe message (concrete bytes)' % (3 if thorough else 2),
                     TP + ({'k': 3 if thorough else 2},), 1800)
    records.extend(st['records'])
    # the same rule when the messages arrive through process: the path survives a read only inside a message that is continued
    # (payload newline), and every terminator resets it -- streams of 1..2 library messages, the second one often relative
    LIB = ('mirsym.checks.process_level', 'LibraryProcess')
    st = run.explore('through process::<16>: streams of 1..2 library messages (relative / absolute / continued after a payload newline), whole, byte-wise, every one and two cut positions: handlers as resolved message by message',
                     LIB + ({'k': 2, 'N': 16, 'max_len': 16},), 1200)
    records.extend(st['records'])
    viol = {}
    n_calls = 0
    for r in records:
        n_calls += 1 if r.get('n_calls') else 0
        for v in r.get('violations', []):
            cur = viol.get(v['role'])
            if cur is None or len(v['input']) < len(cur['input']):
                viol[v['role']] = v
        if 'sample' in r and len(cov['samples']) < 12:
            cov['samples'].append({'message_class_witness': r['sample'], 'handlers_called': r.get('n_calls')})
    cov['vacuity']['leaves_with_handler_calls'] = n_calls
    if n_calls == 0:
        raise Inconclusive('no leaf invoked a handler')
    cov['bounds'] = {'device': 'T1 (same mnemonic at several levels: C, A:C, A:X:C; X, A:X)', 'units_per_message': 3, 'mnemonics_per_header': 3 if thorough else 2,
                     'messages_per_buffer': '2 (3 with an empty message in thorough)', 'entry': 'Interface::run, one buffer; Interface::process::<16> on library streams',
                     'outside': 'longer messages, other trees, white space variants (C11), arguments (C03)'}
    run.evidence['assumptions'] = ['reference resolver: SCPI-99 6.2.4 path rules written from the property statement (mirsym/oracle.py ref_message)',
                                   'reference tree expanded from the declaration strings independently of the macro',
                                   'handlers are recording stubs returning Ok']
    out = []
    for role, v in sorted(viol.items()):
        v = dict(v, property='C02')
        out.append(v)
    return {'violations': out, 'exhaustive': True}


def confirm(run, v):
    if v['rule'] == 'LIBRARY':
        from ..checks.process_level import confirm_library
        return confirm_library(run, v)
    if v['rule'] == 'TPATH':
        return confirm_tpath(run, v)
    return run_cases_confirm(run, v)


def confirm_tpath(run, v):
    from ..oracle import RefTree, ref_message
    from ..world import load_devices
    from ..checks.run_level import unit_struct, STD_TEXT
    tree = RefTree(load_devices()['T3'])
    exp1 = ref_message(tree, lambda c: bool(c), [unit_struct(u) for u in v['units']])
    calls, out, errors = [], b'', 1
    for h in exp1:
        if h == 'FAULT':
            errors += 1
            break
        if h < tree.n_user:
            calls.append(h)
            ret = tree.decls[h]['ret']
            if ret != '()':
                out += {'u8': b'7\n', 'bool': b'1\n', '&str': b'"s"\n'}[ret]
        else:
            out += STD_TEXT[tree.extra[h]]
    detail = {}
    ok_all = False      # reproduced in the dev or the release profile (both recorded)
    for rel in (False, True):
        o = run.native([{'entry': 'run', 'device': 'T3', 'input': v['input'], 'cap': None}], release=rel)[0]
        got = [e[1] for e in o.get('events', []) if e[0] == 'call']
        if 'FAULT' in exp1:
            ok = got[:len(calls)] != calls
        else:
            ok = got != calls or bytes.fromhex(o.get('out', '')) != out or len(o.get('queue') or []) != errors
        detail['release' if rel else 'dev'] = {'observation': o, 'expected_calls': calls, 'reproduced': ok}
        ok_all = ok_all or ok
    return ok_all, detail
