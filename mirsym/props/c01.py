"""C01 -- a header selects a handler iff it spells the declared short/long forms (DESIGN.md section 5, C01)."""
from ..runner import Inconclusive

FREE = ('mirsym.checks.header_level', 'HeaderFree')
NEAR = ('mirsym.checks.header_level', 'HeaderNear')


def check(run):
    thorough = run.tier == 'thorough'
    run.validate_translator(0 if thorough else 400)
    cov = run.evidence['coverage']
    st = run.explore('twin (reference that knows no handler)', FREE + ({'device': 'T1', 'L': 3, 'twin': True},), 300)
    tv = sum(1 for r in st['records'] if r.get('violations'))
    cov['vacuity']['twin_violations'] = tv
    if tv == 0:
        raise Inconclusive('vacuity twin found nothing')
    # Kani: the compiled Node::child (core's eq_ignore_ascii_case included) against a first-match reference, all names of <= 7 ASCII bytes
    from .. import kani_run
    k = kani_run.run_harnesses(['child_'], log=run.log)
    cov['kani'] = {kk: k.get(kk) for kk in ('names', 'ok', 'failed', 'inconclusive', 'wall_s', 'solver_time_s', 'checks', 'covers')}
    run.log(f"[kani] {k.get('names')}: ok={k.get('ok')} failed={k.get('failed')} ({k.get('wall_s')}s)")
    if k.get('inconclusive'):
        raise Inconclusive('Kani: ' + str(k['inconclusive'])[:600])
    kani_viol = [{'rule': 'KANI', 'harness': h, 'what': f'Kani harness {h}: Node::child differs from the case-insensitive first-match reference for some name', 'input': '', 'device': 'T1',
                  'role': 'KANI:' + h} for h in k.get('failed', [])]
    records = []
    done = {}
    Lmax = 10 if thorough else 8
    for dev in ('T1', 'T2', 'T3', 'TY', 'TL', 'TM'):
        for L in range(1, Lmax + 1):
            st = run.explore(f'{dev}: header of {L} symbolic bytes over [A-Za-z0-9_:*?], with and without a parameter, LF', FREE + ({'device': dev, 'L': L},), 2400 if thorough else 300,
                             required=(L <= 6))
            records.extend(st['records'])
            if st['complete']:
                done[dev] = L
            else:
                break
    for dev in ('T1', 'T2', 'T3', 'TY', 'TR', 'Q2', 'TL', 'TM'):
        st = run.explore(f'{dev}: every declared spelling (short/long/optional combinations) x 9 near-miss mutations (one position symbolic over all header characters, appended symbolic '
                         f'character, dropped character, dropped / duplicated level, query mark toggled, leading colon, every prefix of every mnemonic)', NEAR + ({'device': dev},), 1200)
        records.extend(st['records'])
    viol = {}
    refs = {}
    muts = {}
    for r in records:
        if r.get('ref'):
            refs[r['ref']] = refs.get(r['ref'], 0) + 1
        if r.get('mut'):
            muts[r['mut']] = muts.get(r['mut'], 0) + 1
        for v in r.get('violations', []):
            cur = viol.get(v['role'])
            if cur is None or len(v['input']) < len(cur['input']):
                viol[v['role']] = v
        if 'sample' in r and len(cov['samples']) < 14:
            cov['samples'].append(r['sample'])
    cov['vacuity']['leaves_per_reference_verdict'] = refs
    cov['vacuity']['leaves_per_mutation'] = muts
    if not refs.get('handler') or not refs.get('undefined') or not refs.get('malformed'):
        raise Inconclusive('a reference verdict class was never exercised: ' + str(refs))
    cov['bounds'] = {'free_form_header_length_completed': done, 'devices': 'T1 (single letters, same mnemonic at several levels), T2 (short/long, optional nodes anywhere, digits, underscore, non-prefix short form, command+query on one node, common commands, sync+async), T3 = T2 + StandardCommands + ErrorCommands, TY, TR, Q2, TL (mnemonics of 13-28 characters, siblings that differ in an underscore vs a letter, digits, one-letter and prefix-related names Z / ZZ / Z_ / Z0), TM (sibling nodes that share a short form: MEASure / MEASurement, OUTPut / OUTPut1; a capitals-only user node SYSTEM next to the standard SYSTem commands; numeric suffixes; optional last node)',
                     'outside': 'declaration sets other than the corpus in devices.json (the macro runs inside rustc; its host code cannot be encoded, see DESIGN section 6) -- any change of the macro that alters a corpus tree is caught because the reference does not use the macro; headers longer than the free-form bound that are not near-misses of a declared spelling'}
    run.evidence['assumptions'] = ['reference: short form = declared text minus lower-case letters, long form = full text, optional nodes present or omitted, query mark as declared (mirsym/oracle.py expand_decl / ref_header)',
                                   'standard commands get the ids after the user commands in the order VERSion, ERRor[:NEXT], ERRor:COUNt and are observed through their responses']
    return {'violations': [dict(v, property='C01') for _, v in sorted(viol.items())] + kani_viol, 'exhaustive': True}


def confirm(run, v):
    if v['rule'] == 'KANI':
        from .. import kani_run
        ok, text = kani_run.playback(v['harness'])
        return ok, {'concrete_playback': text}
    from ..oracle import RefTree, ref_header
    from ..world import load_devices
    tree = RefTree(load_devices()[v['device']])
    msg = bytes.fromhex(v['input'])
    body = msg[:-1]
    nargs = 0
    lit = b''
    if b' ' in body:
        body, lit = body.split(b' ', 1)
        nargs = 1
    ref = ref_header(tree, lambda c: bool(c), list(body))
    detail = {'reference': ref}
    ok_all = False      # reproduced in the dev or the release profile (both recorded)
    for rel in (False, True):
        o = run.native([{'entry': 'run', 'device': v['device'], 'input': v['input'], 'cap': None}], release=rel)[0]
        calls = [e[1] for e in o.get('events', []) if e[0] == 'call']
        errs = [e[1] for e in o.get('events', []) if e[0] == 'err'] + [q[0] for q in (o.get('queue') or [])]
        if v['rule'] in ('PANIC', 'HANG'):
            ok = o.get('panic') is not None
        elif ref[0] == 'handler' and ref[1] < tree.n_user:
            want = len(tree.decls[ref[1]]['params'])
            from ..checks.header_level import HeaderBase
            lits = HeaderBase.LIT
            if want == nargs and (nargs == 0 or lits.get(tree.decls[ref[1]]['params'][0]) == lit):
                ok = calls != [ref[1]] or bool(errs)
            else:
                ok = bool(calls) or len(errs) != 1
        elif ref[0] == 'handler':
            from ..checks.header_level import STD_OUT
            ok = bool(calls) or (bool(errs) if not nargs else len(errs) != 1) or (not nargs and bytes.fromhex(o.get('out', '')) != STD_OUT[tree.extra[ref[1]]])
        elif ref[0] == 'undefined':
            ok = bool(calls) or errs != [-113]
        else:
            ok = bool(calls) or len(errs) != 1
        detail['release' if rel else 'dev'] = {'observation': o, 'reproduced': ok}
        ok_all = ok_all or ok
    return ok_all, detail
