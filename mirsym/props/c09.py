"""C09 -- the error queue is a bounded FIFO with IEEE 488.2 overflow semantics (DESIGN.md section 5, C09)."""
from ..runner import Inconclusive
from .. import kani_run

SPEC = ('mirsym.checks.queue_level', 'QueueCheck')


def check(run):
    thorough = run.tier == 'thorough'
    run.validate_translator(0 if thorough else 400)
    cov = run.evidence['coverage']
    # (1) Kani: compiled StaticErrorQueue + heapless::Deque against an array FIFO with the overflow rule
    k = kani_run.run_harnesses(['queue_'], log=run.log)
    cov['kani'] = {kk: k.get(kk) for kk in ('names', 'ok', 'failed', 'inconclusive', 'wall_s', 'solver_time_s', 'checks', 'covers')}
    run.log(f"[kani] {k.get('names')}: ok={k.get('ok')} failed={k.get('failed')} ({k.get('wall_s')}s, {k.get('checks')} checks)")
    if k.get('inconclusive'):
        raise Inconclusive('Kani: ' + str(k['inconclusive'])[:600])
    viol = {}
    for h in k.get('failed', []):
        viol['KANI:' + h] = {'rule': 'KANI', 'harness': h, 'what': f'Kani harness {h}: StaticErrorQueue differs from the reference FIFO (or violates a bound) for some operation sequence',
                             'input': '', 'role': 'KANI:' + h}
    cov['obligations'] = k.get('checks')
    # (2) mirsym: wiring and response text through run on the macro-built devices
    st = run.explore('twin (reference with an extra byte)', SPEC + ({'device': 'Q2', 'depth': 2, 'twin': True},), 300)
    tv = sum(1 for r in st['records'] if r.get('violations'))
    cov['vacuity']['twin_violations'] = tv
    if tv == 0:
        raise Inconclusive('vacuity twin found nothing')
    records = []
    plan = [('Q1', 5 if thorough else 4), ('Q2', 6 if thorough else 5), ('Q3', 6 if thorough else 4), ('Q4', 6 if thorough else 4), ('T3', 5 if thorough else 3)]
    for dev, depth in plan:
        st = run.explore(f'{dev}: every sequence of 1..{depth} operations from 8 kinds, one message per run call, custom error numbers symbolic', SPEC + ({'device': dev, 'depth': depth},),
                         3000 if thorough else 600, required=not thorough)
        records.extend(st['records'])
    for dev, depth in (('Q2', 4), ('Q3', 4 if thorough else 3)):
        st = run.explore(f'{dev}: sequences of 1..{depth} operations, all messages in one buffer', SPEC + ({'device': dev, 'depth': depth, 'one_buffer': True},), 900)
        records.extend(st['records'])
    # several units in one message, one of them failing at execution: the relative queue query behind it still finds its header
    # (or, C06, is skipped): SYST:ERR:COUN? 1;NEXT?
    for dev, depth in (('Q2', 4), ('Q3', 4 if thorough else 3), ('T3', 3)):
        st = run.explore(f'{dev}: sequences of 1..{depth} operations incl. a failing unit followed by a relative queue query in the same message',
                         SPEC + ({'device': dev, 'depth': depth, 'kinds': ['undefined', 'custom', 'next', 'count', 'arity;next', 'next+count']},), 900)
        records.extend(st['records'])
    # long histories with few kinds of operation: what happens after an overflow has been partly read out (2N+3 operations and more)
    for dev, depth, kinds in (('Q2', 8, ['undefined', 'next', 'count']), ('Q3', 9 if thorough else 8, ['undefined', 'next', 'count']), ('Q2', 7, ['undefined', 'custom', 'next', 'next+count']),
                              ('Q4', 11 if thorough else 9, ['undefined', 'next'])):
        st = run.explore(f'{dev}: every sequence of exactly {depth} operations from {kinds}', SPEC + ({'device': dev, 'depth': depth, 'kinds': kinds, 'exact_depth': True},), 1500)
        records.extend(st['records'])
    # process::<N> collects the responses of one message in a buffer of N bytes: every message used here answers with at most N bytes
    # ('arity' is left out for N=32: -115,"Unexpected number of parameters" alone is 43 bytes; a response that does not fit is outside
    # C04's and C09's claims -- see DESIGN.md section 9, observations)
    small = ['undefined', 'custom', 'next', 'next-long', 'count', 'valid', 'next+count']
    for pn, chunk, depth, kinds in ((64, 64, 3, None), (32, 32, 4, small), (32, 1, 3, small)):
        st = run.explore(f'Q2: sequences of 1..{depth} operations streamed through process::<{pn}>, {chunk} bytes per read (the responses of several messages per read exceed the buffer unless each is sent at once)',
                         SPEC + ({'device': 'Q2', 'depth': depth, 'process': chunk, 'pn': pn, 'kinds': kinds},), 900)
        records.extend(st['records'])
    overflowed = 0
    for r in records:
        if r.get('overflowed'):
            overflowed += 1
        for v in r.get('violations', []):
            cur = viol.get(v['role'])
            if cur is None or len(v.get('ops', [])) < len(cur.get('ops', [])):
                viol[v['role']] = v
        if 'sample' in r and len(cov['samples']) < 12:
            cov['samples'].append(r['sample'])
    cov['vacuity']['leaves_in_which_the_queue_overflowed'] = overflowed
    if overflowed == 0:
        raise Inconclusive('no explored sequence overflowed the queue')
    cov['bounds'] = {'kani': 'StaticErrorQueue<N> for N=1..4, 5-6 symbolic operations (push of a symbolic error incl. Custom(any i16) / pop), then a full drain; unwinding assertions on',
                     'mirsym': {d: f'depth {k}' for d, k in plan}, 'capacities': '1, 2, 3, 4 and the documented 10 (T3)',
                     'outside': 'longer sequences; N=10 is exercised at depth 3-5 only (cannot overflow at that depth: the overflow rule itself is covered by N=1..4)'}
    run.evidence['assumptions'] = ['mirsym models heapless::Deque as a bounded list; the real Deque (ring buffer) is what the Kani harnesses execute',
                                   'error descriptions are taken from the real From<Error> for &str (MIR)']
    return {'violations': [dict(v, property='C09') for _, v in sorted(viol.items())], 'exhaustive': True}


def confirm(run, v):
    if v['rule'] == 'KANI':
        ok, text = kani_run.playback(v['harness'])
        return ok, {'concrete_playback': text}
    # native: one run call per message on one device is not expressible in vreplay (fresh device per case), so replay the
    # one-buffer form: all messages concatenated (same queue semantics; C06/C07 cover the equivalence)
    script = {}
    calls = 0
    ci = 0
    for op in v['ops']:
        if op == 'custom':
            script[str(calls)] = ['custom', v['custom_numbers'][ci], b'cu'.hex()]
            ci += 1
            calls += 1
        elif op == 'valid':
            calls += 1
    detail = {}
    ok_all = False      # reproduced in the dev or the release profile (both recorded)
    for rel in (False, True):
        if v.get('process'):
            o = run.native([{'entry': 'process', 'device': v['device'], 'input': v['input'], 'n': v.get('pn', 64), 'chunks': [], 'tail': v['process'], 'script': script}], release=rel)[0]
        else:
            o = run.native([{'entry': 'run', 'device': v['device'], 'input': v['input'], 'cap': None, 'script': script}], release=rel)[0]
        exp = reference_output(v['ops'], v['custom_numbers'], {'Q1': 1, 'Q2': 2, 'Q3': 3, 'Q4': 4, 'T3': 10}[v['device']])
        ok = o.get('panic') is not None or bytes.fromhex(o.get('out', '')) != exp[0] or len(o.get('queue') or []) != exp[1]
        detail['release' if rel else 'dev'] = {'observation': o, 'reference_output': exp[0].decode('latin1'), 'reproduced': ok}
        ok_all = ok_all or ok
    return ok_all, detail


TEXT = {-113: 'Undefined header', -115: 'Unexpected number of parameters', -350: 'Queue overflow'}


def reference_output(ops, nums, cap):
    fifo, out, ci = [], b'', 0

    def push(e):
        if len(fifo) < cap:
            fifo.append(e)
        elif fifo:
            fifo[-1] = (-350, TEXT[-350])

    def pop():
        if fifo:
            n, t = fifo.pop(0)
            return f'{n},"{t}"\n'.encode()
        return b'0,""\n'
    for op in ops:
        if op == 'undefined':
            push((-113, TEXT[-113]))
        elif op == 'arity':
            push((-115, TEXT[-115]))
        elif op == 'custom':
            push((nums[ci], 'cu'))
            ci += 1
        elif op in ('next', 'next-long'):
            out += pop()
        elif op == 'count':
            out += f'{len(fifo)}\n'.encode()
        elif op == 'next+count':
            out += pop()
            out += f'{len(fifo)}\n'.encode()
    return out, len(fifo)
