"""C04 -- responses are complete, well-formed and decode to the returned value (DESIGN.md section 5, C04)."""
from ..runner import Inconclusive
from ..checks.response_level import QUERIES

SPEC = ('mirsym.checks.response_level', 'ResponseCheck')
NOOUT = ('mirsym.checks.response_level', 'NoOutputCheck')
TEXT_ONLY = ['RBO', 'RST', 'RHS', 'RAR', 'RCH', 'RSS']      # no integer/float text tokens: can go through the capacity-limited writer


def check(run):
    thorough = run.tier == 'thorough'
    run.validate_translator(0 if thorough else 600)
    cov = run.evidence['coverage']
    st = run.explore('twin (reference expecting CR LF)', SPEC + ({'query': 'RST', 'twin': True},), 300)
    tv = sum(1 for r in st['records'] if r.get('violations'))
    cov['vacuity']['twin_violations'] = tv
    if tv == 0:
        raise Inconclusive('vacuity twin found nothing')
    records = []
    ml = 6 if thorough else 4
    for q in QUERIES:
        st = run.explore(f'TR {q}? with a symbolic return value, pass-through writer', SPEC + ({'query': q, 'maxlen': ml},), 1200 if thorough else 300)
        records.extend(st['records'])
    for q in TEXT_ONLY:
        st = run.explore(f'TR {q}? with a symbolic return value, heapless::Vec<u8, 256> (real Write impl from MIR)', SPEC + ({'query': q, 'maxlen': ml, 'writer': 'heapless'},), 1200 if thorough else 300)
        records.extend(st['records'])
    # the std writer: MIR of the std-feature build, std::vec::Vec<u8> as the response writer (validated against a replay binary built the same way)
    from .. import diffcorpus
    from ..world import World
    from ..replay import Observer, run_native, native_obs, same
    import os
    from .. import build
    try:
        run.paths = build.ensure(log=run.log, std=True)
    except build.BuildError as e:
        raise Inconclusive('the std-feature build failed: ' + str(e))
    wstd = World(run.paths['mir_micro_std'], run.paths['mir_vdev'], os.path.join(os.environ.get('VERIF_REPO', '/repo'), 'microscpi', 'src'))
    obs = Observer(wstd)
    cases = [{'entry': 'run', 'device': 'TR', 'input': l.hex(), 'cap': 'std'} for l in diffcorpus.HAND_TR]
    cases += [{'entry': 'run', 'device': 'TR', 'input': m.encode().hex(), 'cap': 'std', 'script': sc} for m, sc in diffcorpus.TR_SCRIPTS]
    raw = run_native(cases, run.paths['vreplay_std'])
    for c, js in zip(cases, raw):
        mine = obs.observe(c)
        if not same(native_obs(js, c), mine):
            raise Inconclusive('std-writer translator validation failed on ' + str(c)[:200])
    cov['differential']['std_writer_cases'] = len(cases)
    cov['traces_validated_against_impl'] += len(cases)
    for q in QUERIES:
        st = run.explore(f'TR {q}? with a symbolic return value, std::vec::Vec<u8> writer (std-feature MIR)', SPEC + ({'query': q, 'maxlen': ml, 'writer': 'std'},), 1200 if thorough else 300, std=True)
        records.extend(st['records'])
    COMP = ('mirsym.checks.response_level', 'CompoundResponseCheck')
    st = run.explore('compound messages: twin', COMP + ({'k': 2, 'twin': True},), 300)
    if not any(r.get('violations') for r in st['records']):
        raise Inconclusive('vacuity twin (compound messages) found nothing')
    st = run.explore('compound messages of 2..3 units out of 4 queries, a command, an undefined header and a rejected query, with and without a trailing ";": responses in execution order, each followed by its own newline and flush before the next unit writes',
                     COMP + ({'k': 3},), 600)
    records.extend(st['records'])
    NUM = ('mirsym.checks.response_level', 'NumericWriterCheck')
    st = run.explore('numeric extremes: twin', NUM + ({'twin': True},), 300)
    if not any(r.get('violations') for r in st['records']):
        raise Inconclusive('vacuity twin (numeric extremes) found nothing')
    st = run.explore('23 concrete numeric extremes (float texts of up to 101 characters, integer bounds of every width) through the pass-through writer and the real heapless::Vec<u8,256> writer: '
                     'text equal to an independent formatter', NUM + ({},), 300)
    records.extend(st['records'])
    # exactly one response per executed query also when the messages arrive through process (no duplicates, nothing left in the buffer)
    LIB = ('mirsym.checks.process_level', 'LibraryProcess')
    st = run.explore('through process::<16>: streams of 1..2 library messages (answered / failing queries, commands, a query in front of a payload newline), whole, byte-wise, one and two cuts: '
                     'the bytes written are exactly the responses of the successful queries, once each', LIB + ({'k': 2, 'N': 16, 'max_len': 16},), 1200)
    records.extend(st['records'])
    st = run.explore('no-output cases: command, handler error (custom / unit), rejected argument, undefined header, query on a command', NOOUT + ({},), 300)
    records.extend(st['records'])
    viol = {}
    seen = set()
    for r in records:
        if r.get('query'):
            seen.add(r['query'])
        for v in r.get('violations', []):
            cur = viol.get(v['role'])
            if cur is None:
                viol[v['role']] = v
        if 'sample' in r and len(cov['samples']) < 16:
            cov['samples'].append(r['sample'])
    cov['vacuity']['response_types_explored'] = len(seen)
    cov['bounds'] = {'response_types': QUERIES, 'strings': f'0..{ml} symbolic ASCII bytes (including the double quote)', 'blocks': 'lengths 0,1,2,9,10,12 with symbolic payload',
                     'integers': 'one symbolic bit-vector per value (all values at once); the decimal text itself is a token: digits are core::fmt\'s business and are compared on concrete extremes in the differential corpus',
                     'floats': 'all bit patterns, split by z3 floating point into NaN / +inf / -inf / finite; finite text is a token (trusted float Display); concrete samples replayed natively',
                     'containers': 'tuples of 2-4, nested tuple, slices / heapless::Vec of 0..3 elements',
                     'writers': 'pass-through (records calls), heapless::Vec<u8,256> (real impl from MIR, text-only types), std::vec::Vec<u8> (real impl from the MIR of the std-feature build)',
                     'outside': 'longer strings; responses that do not fit (partial bytes, see DESIGN section 4); non-ASCII strings (no byte of them is a quote)'}
    run.evidence['assumptions'] = ['integer and float Display of core are trusted (decimal text of the value); checked: the value is passed unmodified and unflagged, exactly once',
                                   'reference encoder/decoder of IEEE 488.2 response data in mirsym/checks/response_level.py']
    return {'violations': [dict(v, property='C04') for _, v in sorted(viol.items())], 'exhaustive': True}


def confirm(run, v):
    import re
    detail = {}
    ok_all = False      # reproduced in the dev or the release profile (both recorded)
    if v['rule'] == 'LIBRARY':
        from ..checks.process_level import confirm_library
        return confirm_library(run, v)
    for rel in (False, True):
        if v['rule'] == 'COMPOUND':
            o = run.native([{'entry': 'run', 'device': 'TR', 'input': v['input'], 'cap': None}], release=rel)[0]
            # independent reading of the native writer calls: a flush right after every newline that ends a response
            ops = o.get('wops', [])
            out = bytes.fromhex(o.get('out', ''))
            nl = out.count(b'\n')
            flushes = [i for i, x in enumerate(ops) if x == 'F']
            ok = len(flushes) != nl or (bool(ops) and ops[-1] != 'F')
            if not ok:
                # every flush must directly follow the write of a newline: rebuild positions
                pos = 0
                for x in ops:
                    if x == 'F':
                        if pos == 0 or out[pos - 1:pos] != b'\n':
                            ok = True
                    else:
                        pos += int(x[1:]) if len(x) > 1 and x[1:].isdigit() else 1
            detail['release' if rel else 'dev'] = {'observation': o, 'reproduced': ok}
            ok_all = ok_all or ok
            continue
        if v['rule'] == 'OUTPUT':
            scripts = [None, {'0': ['custom', -7, '78']}, {'0': ['unit', -200]}, None, None, None]
            o = run.native([{'entry': 'run', 'device': 'TR', 'input': v['input'], 'cap': None, 'script': scripts[v.get('case', 0)]}], release=rel)[0]
            ok = bool(o.get('out')) or bool(o.get('wops'))
        else:
            tok = v['script']['0'][1]
            if 'err:' in tok and '?' in tok or tok == 'err:custom':
                return None, {'note': 'error-typed return value not scriptable natively'}
            if v.get('writer') == 'std':
                o = run.native([{'entry': 'run', 'device': 'TR', 'input': v['input'], 'cap': 'std', 'script': v['script']}], std=True)[0]
            else:
                o = run.native([{'entry': 'run', 'device': 'TR', 'input': v['input'], 'cap': None if v.get('writer') == 'pass' else 256, 'script': v['script']}], release=rel)[0]
            if v['rule'] in ('PANIC', 'HANG'):
                ok = o.get('panic') is not None
            else:
                ok = not native_response_ok(o, tok)
        detail['release' if rel else 'dev'] = {'observation': o, 'reproduced': ok}
        ok_all = ok_all or ok
    return ok_all, detail


def native_response_ok(o, tok):
    """independent reference check on a concrete native observation: is `out` the IEEE 488.2 encoding of the scripted value?"""
    if o.get('panic'):
        return False
    kind, _, val = tok.partition(':')
    if kind in ('f32', 'f64'):
        import math
        import struct
        x = struct.unpack('<f', struct.pack('<I', int(val)))[0] if kind == 'f32' else struct.unpack('<d', struct.pack('<Q', int(val)))[0]
        out = bytes.fromhex(o.get('out', ''))
        if any(e[0] == 'err' for e in o.get('events', [])) or not out.endswith(b'\n'):
            return False
        if math.isnan(x):
            return out == b'9.91E+37\n'
        if math.isinf(x):
            return out == (b'-' if x < 0 else b'') + b'9.9E+37\n'
        try:
            y = float(out[:-1].decode())
        except ValueError:
            return False
        if kind == 'f32':
            y = struct.unpack('<f', struct.pack('<f', y))[0]
        return y == x and math.copysign(1.0, y) == math.copysign(1.0, x)
    exp = encode_token(tok)
    if exp is None:
        return True
    return bytes.fromhex(o.get('out', '')) == exp + b'\n' and not any(e[0] == 'err' for e in o.get('events', []))


def encode_token(tok):
    kind, _, val = tok.partition(':')
    if kind == 'bool':
        return b'1' if val == '1' else b'0'
    if kind == 'int':
        return val.encode()
    if kind == 'str':
        return b'"' + bytes.fromhex(val).replace(b'"', b'""') + b'"'
    if kind == 'bytes':
        b = bytes.fromhex(val)
        if not b:
            return b'#10'
        d = str(len(b)).encode()
        return b'#' + str(len(d)).encode() + d + b
    if kind in ('f32', 'f64'):
        return None
    if kind in ('tuple', 'list'):
        from ..replay import _split_ret
        parts = [encode_token(p) for p in _split_ret(val[1:-1])]
        if any(p is None for p in parts):
            return None
        return b','.join(parts)
    return None
