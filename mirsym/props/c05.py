"""C05 -- no input can crash or hang the interpreter (DESIGN.md section 5, C05)."""
from ..runner import Inconclusive
from ..checks.process_level import ALPHA_C02, ALPHA_C05

PARSE = ('mirsym.checks.parse_level', 'ParseCheck')
FREE = ('mirsym.checks.process_level', 'FreeCheck')


def check(run):
    thorough = run.tier == 'thorough'
    run.validate_translator(0 if thorough else 400)
    cov = run.evidence['coverage']
    records = []
    bounds = {}

    def go(name, spec, secs, required=True):
        st = run.explore(name, spec, secs, required=required)
        records.extend(st['records'])
        return st['complete']

    # (a) parse on all byte strings (all 256 values): panic / step-budget monitors only
    for L in range(1, (7 if thorough else 6) + 1):
        if go(f'parse T1 root, all bytes, L={L}', PARSE + ({'device': 'T1', 'L': L, 'prefixes': False},), 3000 if thorough else 400, required=(L <= 6)):
            bounds['parse_all_bytes_L'] = L
    for L in range(1, (6 if thorough else 4) + 1):
        go(f'parse T2 root, all bytes, L={L}', PARSE + ({'device': 'T2', 'L': L, 'prefixes': False},), 900)
        go(f'parse T1 from A/X, all bytes, L={L}', PARSE + ({'device': 'T1', 'start': ['A', 'X'], 'L': L, 'prefixes': False},), 900)
    # long parameter lists and long headers: concrete prefix + symbolic tail (all 256 values per byte)
    for k in (1, 2, 5, 9, 10, 11, 12, 15):
        pre = 'C ' + ','.join(['1'] * k) + ','
        go(f'parse T1 root, "C 1,1,...," ({k} parameters, then a separator) + 2 symbolic bytes', PARSE + ({'device': 'T1', 'L': 2, 'prefix': pre, 'prefixes': False},), 600)
    for pre in ('A:X:', 'A:X:C;', 'S "abc', 'K #14ab', 'K #2', 'U? #H', 'U? 1E', 'U? 1.', 'C ' + '1' * 30, 'C ' + 'A' * 30):
        go(f'parse T1 root, {pre!r} + 3 symbolic bytes', PARSE + ({'device': 'T1', 'L': 3, 'prefix': pre, 'prefixes': False},), 600)
    bounds['structured_prefixes'] = 'parameter lists of 1..15 entries, deep headers, open strings / blocks / radix and exponent prefixes, 30-character numerals and character data, each followed by 2..3 symbolic bytes'
    # argument conversion (reached only after parsing and dispatch succeed): every typed handler of device TY with a region of symbolic
    # bytes (all 256 values) -- only crashes and hangs count here, the delivered values are C03's subject
    ARG = ('mirsym.checks.arg_level', 'ArgCheck')
    for h in ('PU8', 'PI8', 'PU16', 'PI32', 'PU64', 'PI64', 'PIS', 'PF32', 'PF64', 'PBO', 'PST', 'PBL'):
        for L in ((3, 4) if thorough else (3,)):
            st = run.explore(f'run TY {h} <{L} symbolic bytes, all 256 values> LF (crash / hang monitor)', ARG + ({'handler': h, 'L': L},), 1200 if thorough else 300)
            for r in st['records']:
                r['violations'] = [v for v in r.get('violations', []) if v['rule'] in ('PANIC', 'HANG', 'STEPLIMIT')]
                for v in r['violations']:
                    v.update(entry='run', cap=256)
                records.append(r)
    for h, pre in (('PU8', '1E'), ('PU64', '1E1'), ('PI16', '-1E'), ('PU8', '0E9'), ('PF32', '1E3'), ('PU8', '#H'), ('PU64', '#B' + '1' * 63)):
        st = run.explore(f'run TY {h} {pre}<2 symbolic bytes> LF (crash / hang monitor)', ARG + ({'handler': h, 'L': 2, 'prefix': pre},), 300)
        for r in st['records']:
            r['violations'] = [v for v in r.get('violations', []) if v['rule'] in ('PANIC', 'HANG', 'STEPLIMIT')]
            for v in r['violations']:
                v.update(entry='run', cap=256)
            records.append(r)
    bounds['argument_conversion'] = '12 typed handlers of TY, 3 (4) symbolic bytes; exponent / radix prefixes + 2 symbolic bytes'
    # response formatting (reached only after the handler returned): symbolic strings incl. quotes and multi-byte characters, blocks,
    # tuples and lists with strings, through the pass-through and the heapless writer -- crashes and hangs only (values are C04's subject)
    RESP = ('mirsym.checks.response_level', 'ResponseCheck')
    for q in ('RST', 'RHS', 'RAR', 'RER', 'RT4', 'RSS', 'RF64', 'RI64'):
        for wr in ('pass', 'heapless') if q in ('RST', 'RHS', 'RAR', 'RSS') else ('pass',):
            st = run.explore(f'run TR {q}? with a symbolic return value, {wr} writer (crash / hang monitor)', RESP + ({'query': q, 'maxlen': 5 if thorough else 4, 'writer': wr},), 900 if thorough else 300)
            for r in st['records']:
                r['violations'] = [v for v in r.get('violations', []) if v['rule'] in ('PANIC', 'HANG', 'STEPLIMIT')]
                for v in r['violations']:
                    v.update(entry='run', cap=None if wr == 'pass' else 256)
                records.append(r)
    bounds['response_formatting'] = '8 response types of TR with symbolic return values (strings of 0..4 (5) bytes incl. one 2- or 3-byte character and quotes)'
    # (b) run with response buffers of every small capacity, free-form input over the class alphabet
    for cap in range(0, 5):
        for L in range(1, (5 if thorough else 4) + 1):
            go(f'run T1 cap={cap} L={L} (responses 123 / 45)', FREE + ({'entry': 'run', 'L': L, 'cap': cap, 'script': 'big'},), 900)
        bounds.setdefault('run_caps', []).append(cap)
    Lr = 6 if thorough else 5
    for L in range(1, Lr + 1):
        if go(f'run T1 cap=1 L={L}', FREE + ({'entry': 'run', 'L': L, 'cap': 1},), 3000 if thorough else 300, required=(L < Lr)):
            bounds['run_L'] = L
    # (c) process with the real run, all chunkings (one empty read allowed), response buffer = N
    for N in range(1, (9 if thorough else 6) + 1):
        S = 4 if not thorough else (5 if N <= 5 else 4)
        for L in range(1, S + 1):
            go(f'process T1 N={N} stream length {L}, all chunkings', FREE + ({'entry': 'process', 'L': L, 'N': N, 'alphabet': ALPHA_C02, 'script': 'big'},), 1500, required=(L <= 4))
        bounds.setdefault('process_N', []).append(N)
    PAY = [ord(c) for c in 'SK "#1\n;A:']
    for N in ((4, 6, 8) if thorough else (4, 6)):
        for L in range(1, (6 if thorough else 5) + 1):
            go(f'process T1 N={N} stream length {L} over the payload alphabet S K blank quote # 1 LF ; A :', FREE + ({'entry': 'process', 'L': L, 'N': N, 'alphabet': PAY, 'max_empty': 0},), 1500,
               required=(L <= 4))
    if thorough:
        go('process T1 N=16 stream length 5', FREE + ({'entry': 'process', 'L': 5, 'N': 16, 'alphabet': ALPHA_C02},), 2400, required=False)
    viol = {}
    kinds = {}
    for r in records:
        kinds[r['kind']] = kinds.get(r['kind'], 0) + 1
        for v in r.get('violations', []):
            cur = viol.get(v['role'])
            if cur is None or len(v['input']) < len(cur['input']):
                viol[v['role']] = v
        if 'sample' in r and len(cov['samples']) < 12:
            cov['samples'].append(r['sample'])
    cov['leaf_outcomes'] = kinds
    cov['bounds'] = dict(bounds, alphabet_run=''.join(chr(c) for c in ALPHA_C05), alphabet_process=''.join(chr(c) for c in ALPHA_C02),
                         monitors='failed MIR assert (overflow, bounds), unwrap/expect on None/Err, slice range checks of the core models, unreachable, explicit panics, step budget per path (hang), run result is a suffix of its argument, process never returns Ok',
                         outside='longer inputs; N > 9 (16 in thorough, partially); capacities > 4 for run; user handlers that panic; adapters returning n > dst.len()')
    run.evidence['assumptions'] = ['adapter contract: read returns n <= dst.len()', 'handlers are stubs that return Ok(123) / Ok(45) / Ok(7) and never panic',
                                   'a path exceeding the step budget is reported as a hang']
    return {'violations': [dict(v, property='C05') for _, v in sorted(viol.items())], 'exhaustive': True}


def confirm(run, v):
    if v.get('entry', 'parse') == 'parse' or 'entry' not in v:
        case = {'entry': 'parse', 'device': v['device'], 'start': v.get('start') or [], 'input': v['input']}
    elif v['entry'] == 'run':
        case = {'entry': 'run', 'device': v['device'], 'input': v['input'], 'cap': v['cap'], 'script': v.get('script')}
    else:
        case = {'entry': 'process', 'device': v['device'], 'input': v['input'], 'n': v['n'], 'chunks': v.get('chunks') or [], 'tail': 1, 'script': v.get('script')}
    detail = {}
    ok_all = False      # reproduced in the dev or the release profile (both recorded)
    for rel in (False, True):
        obs = run.native([case], release=rel)[0]
        if v['rule'] in ('PANIC', 'HANG'):
            ok = obs.get('panic') is not None
        elif v['rule'] == 'SUFFIX':
            ok = bool(obs.get('not_suffix'))
        elif v['rule'] == 'RETURNED_OK':
            ok = obs.get('result') == 'ok'
        elif v['rule'] == 'ORDER':
            from ..checks.abstract_process import order_violation_native
            ok = order_violation_native(obs.get('trace', [])) is not None
        else:
            ok = False
        detail['release' if rel else 'dev'] = {'observation': obs, 'reproduced': ok}
        ok_all = ok_all or ok
    return ok_all, detail
