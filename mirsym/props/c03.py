"""C03 -- handlers receive exactly the argument values written, or are not called (DESIGN.md section 5, C03)."""
import struct
from fractions import Fraction

from ..runner import Inconclusive
from ..checks.arg_level import SINGLE

ARG = ('mirsym.checks.arg_level', 'ArgCheck')
ARITY = ('mirsym.checks.arg_level', 'ArityCheck')

# decimal literals on which a sloppy conversion shows: just off a midpoint between two adjacent f32 values (double rounding
# through f64), many digits, exponents, bounds, subnormals
FLOAT_LITERALS = [b'16777217.0000000001', b'16777218.9999999999', b'1.00000005960464477539062500000001', b'0.1', b'1e39', b'-1e39', b'3.4028235e38',
                  b'3.4028236e38', b'1.17549435e-38', b'1e-46', b'123456789012345678901234567890', b'4.35', b'8388608.5', b'8388609.5', b'0.000000000000000000000000000000000000000000001',
                  b'9007199254740993', b'9007199254740992.9999', b'1.7976931348623157e308', b'1.7976931348623159e308', b'4.9e-324', b'2.4703282292062327e-324', b'2.4703282292062328e-324',
                  b'.5', b'5.', b'+1E+2', b'-0.25E-3', b'00001.5000', b'1e0', b'-0']


def exact_float_bits(text, ty):
    """correctly rounded (nearest, ties to even) binary32/binary64 bit pattern of a decimal literal, by exact rational arithmetic"""
    t = text.decode()
    neg = t.startswith('-')
    t = t.lstrip('+-')
    mant, _, exp = t.lower().partition('e')
    ip, _, fp = mant.partition('.')
    q = Fraction(int((ip + fp) or '0'), 10 ** len(fp)) * (Fraction(10) ** int(exp or '0'))
    mb, eb = (23, 8) if ty == 'f32' else (52, 11)
    bias = (1 << (eb - 1)) - 1
    sign = 1 if neg else 0
    if q == 0:
        return sign << (mb + eb)
    e = q.numerator.bit_length() - q.denominator.bit_length()
    while Fraction(2) ** e > q:
        e -= 1
    while Fraction(2) ** (e + 1) <= q:
        e += 1
    e = max(e, 1 - bias)                      # subnormal range shares the smallest exponent
    scaled = q / (Fraction(2) ** (e - mb))    # in units of one ulp
    n = int(scaled)
    rem = scaled - n
    if rem > Fraction(1, 2) or (rem == Fraction(1, 2) and n % 2 == 1):
        n += 1
    if n >= (1 << (mb + 1)):
        n >>= 1
        e += 1
    if e > bias:
        return (sign << (mb + eb)) | (((1 << eb) - 1) << mb)      # infinity
    if n < (1 << mb):
        be = 0
        frac = n
    else:
        be = e + bias
        frac = n - (1 << mb)
    return (sign << (mb + eb)) | (be << mb) | frac


def check(run):
    thorough = run.tier == 'thorough'
    cov = run.evidence['coverage']
    # correctly rounded floats: concrete literals through the real code (core's dec2flt is outside the solver's reach; see DESIGN section 6)
    cases = []
    for lit in FLOAT_LITERALS:
        for h, ty in (('PF32', 'f32'), ('PF64', 'f64')):
            cases.append(({'entry': 'run', 'device': 'TY', 'input': (h.encode() + b' ' + lit + b'\n').hex(), 'cap': None}, lit, ty))
    obs = run.native([c for c, _, _ in cases])
    viol = {}
    float_checked = 0
    for (case, lit, ty), o in zip(cases, obs):
        calls = [e for e in o.get('events', []) if e[0] == 'call']
        want = exact_float_bits(lit, ty)
        float_checked += 1
        if len(calls) != 1 or calls[0][2][0] != [ty, str(want)]:
            viol[f'FLOAT:{ty}'] = {'rule': 'FLOAT', 'what': f'{ty} parameter written as {lit.decode()} must be delivered as bits {want} (correctly rounded); the real code delivered {calls}',
                                   'input': case['input'], 'device': 'TY', 'want': [ty, str(want)], 'role': f'FLOAT:{ty}:rounding'}
    cov['vacuity']['concrete_float_literals_checked_natively'] = float_checked
    # integer bounds: concrete literals at and just beyond each type's bounds through the real code (the symbolic stage covers the same
    # region with symbolic tails; this one needs no model of whatever conversion the code uses)
    INT_TYPES = [('PU8', 0, 2 ** 8 - 1), ('PI8', -2 ** 7, 2 ** 7 - 1), ('PU16', 0, 2 ** 16 - 1), ('PI16', -2 ** 15, 2 ** 15 - 1), ('PU32', 0, 2 ** 32 - 1), ('PI32', -2 ** 31, 2 ** 31 - 1),
                 ('PU64', 0, 2 ** 64 - 1), ('PI64', -2 ** 63, 2 ** 63 - 1), ('PUS', 0, 2 ** 64 - 1), ('PIS', -2 ** 63, 2 ** 63 - 1)]
    icases = []
    for h, lo, hi in INT_TYPES:
        for v in sorted({lo, lo + 1, hi - 1, hi, hi + 1, hi + 2, hi + 1024, hi + 2048, hi + 2 ** 20, lo - 1, lo - 2, lo - 1024, lo - 2048, 2 * hi + 1, 10 * hi}):
            icases.append(({'entry': 'run', 'device': 'TY', 'input': (h.encode() + b' ' + str(v).encode() + b'\n').hex(), 'cap': None}, h, v, lo <= v <= hi))
    iobs = run.native([c for c, _, _, _ in icases])
    for (case, h, v, fits), o in zip(icases, iobs):
        calls = [e for e in o.get('events', []) if e[0] == 'call']
        errs = [e for e in o.get('events', []) if e[0] == 'err']
        ok = (len(calls) == 1 and not errs and calls[0][2][0] == ['int', str(v)]) if fits else (not calls and len(errs) == 1 and errs[0][1] == -120)
        if not ok and f'INTBOUND:{h}' not in viol:
            viol[f'INTBOUND:{h}'] = {'rule': 'INTBOUND', 'what': f'{h} {v}: ' + ('must be delivered exactly' if fits else 'is out of range: no call and exactly one -120') + f'; the real code gave calls {calls} errors {errs}',
                                    'input': case['input'], 'device': 'TY', 'fits': fits, 'value': str(v), 'role': f'INTBOUND:{h}'}
    cov['vacuity']['concrete_integer_bound_literals_checked_natively'] = len(icases)
    # when the native float stage above already shows a wrong value, an executor that stops at an unknown construct (in the translator
    # validation or in an exploration) must not hide it
    try:
        return _symbolic_part(run, thorough, cov, viol)
    except Inconclusive as e:
        if not viol:
            raise
        run.log(f'[C03] symbolic part stopped ({str(e)[:120]}); the natively observed float violations are reported')
        return {'violations': [dict(v, property='C03') for _, v in sorted(viol.items())], 'exhaustive': False}


def _symbolic_part(run, thorough, cov, viol):
    run.validate_translator(0 if thorough else 600)
    st = run.explore('twin (every delivered value declared wrong)', ARG + ({'handler': 'PU8', 'L': 3, 'twin': True},), 300)
    tv = sum(1 for r in st['records'] if r.get('violations'))
    cov['vacuity']['twin_violations'] = tv
    if tv == 0:
        raise Inconclusive('vacuity twin found nothing')
    records = []
    Lmax = 5 if thorough else 4
    done = {}
    for h in SINGLE:
        for L in range(1, Lmax + 1):
            st = run.explore(f'TY {h} <{L} symbolic bytes, all 256 values> LF vs reference lexer + converter', ARG + ({'handler': h, 'L': L},), 2400 if thorough else 300,
                             required=(L < Lmax or not thorough))
            records.extend(st['records'])
            if st['complete']:
                done[h] = L
    # long literals: fixed prefix of digits so that values at and beyond each type's bounds are reached with few symbolic bytes
    for h, pre in (('PU8', b'25'), ('PI8', b'-12'), ('PU16', b'6553'), ('PI16', b'-3276'), ('PU32', b'429496729'), ('PI32', b'-214748364'),
                   ('PU64', b'1844674407370955161'), ('PI64', b'-922337203685477580'), ('PI64', b'922337203685477580'), ('PU16', b'#HFFF'), ('PI16', b'#H7FF'), ('PU8', b'#B1111111'),
                   ('PI8', b'#Q17'), ('PU32', b'#HFFFFFFF'), ('PU64', b'#Q177777777777777777777'), ('PU64', b'#Q7777777777777777777777'), ('PU8', b'#Q20000000000000000001'),
                   ('PI32', b'#Q70000000000000000000'), ('PU64', b'#HFFFFFFFFFFFFFFF'), ('PU16', b'#H1000000000000FF'), ('PU64', b'#B' + b'1' * 63), ('PU8', b'#B1' + b'0' * 62),
                   ('PI64', b'#H7FFFFFFFFFFFFFF'), ('PUS', b'1844674407370955161'), ('PIS', b'-922337203685477580')):
        st = run.explore(f'TY {h} {pre.decode()}<2 symbolic bytes> LF (values at and just beyond the bounds)', ARG + ({'handler': h, 'L': 2, 'prefix': pre.decode('latin1')},), 300)
        records.extend(st['records'])
    st = run.explore('arity: N0..N10 with 0..11 parameters', ARITY + ({},), 300)
    records.extend(st['records'])
    classes = {}
    for r in records:
        if r.get('class'):
            classes[r['class']] = classes.get(r['class'], 0) + 1
        for v in r.get('violations', []):
            cur = viol.get(v['role'])
            if cur is None or len(v['input']) < len(cur['input']):
                viol[v['role']] = v
        if 'sample' in r and len(cov['samples']) < 14:
            cov['samples'].append(r['sample'])
    cov['vacuity']['leaves_per_reference_class'] = classes
    cov['bounds'] = {'argument_region': f'{Lmax} symbolic bytes (all 256 values except LF and ";") per single-parameter handler {SINGLE}; long literals with a fixed digit prefix + 2 symbolic bytes',
                     'completed': done, 'arity': 'declared 0,1,2,3,4,10 x supplied 0..11',
                     'floats': f'{len(FLOAT_LITERALS)} concrete literals x f32/f64 compared natively with exact rational rounding; symbolically: the text handed to str::parse is the literal, parsed as the declared type, delivered unmodified',
                     'outside': 'longer symbolic regions; correct rounding inside core::num::dec2flt for literals not in the list; doubled quotes inside strings; TRUE/FALSE and mixed-case ON/OFF (not decided by the property)'}
    run.evidence['assumptions'] = ['from_str_radix contract model (optional sign, digits of the radix, range check); validated against compiled core by the differential corpus on every run',
                                   'reference 488.2 program-data lexer/converter in mirsym/checks/arg_level.py', 'str::parse::<f32/f64> is trusted to round correctly']
    return {'violations': [dict(v, property='C03') for _, v in sorted(viol.items())], 'exhaustive': True}


def confirm(run, v):
    if v['rule'] == 'INTBOUND':
        detail = {}
        ok_all = False
        for rel in (False, True):
            o = run.native([{'entry': 'run', 'device': 'TY', 'input': v['input'], 'cap': None}], release=rel)[0]
            calls = [e for e in o.get('events', []) if e[0] == 'call']
            errs = [e for e in o.get('events', []) if e[0] == 'err']
            good = (len(calls) == 1 and not errs and calls[0][2][0] == ['int', v['value']]) if v['fits'] else (not calls and len(errs) == 1 and errs[0][1] == -120)
            detail['release' if rel else 'dev'] = {'observation': o, 'reproduced': not good}
            ok_all = ok_all or not good
        return ok_all, detail
    if v['rule'] == 'ARG' and v.get('ptype') in ('f32', 'f64') and ('parsed as' in v['what'] or 'modified before delivery' in v['what'] or 'float parser' in v['what']):
        # the symbolic finding is about the mechanism (wrong parser type / value modified); show it on a literal where it matters
        ty = v['ptype']
        h = 'PF32' if ty == 'f32' else 'PF64'
        for rel in (False, True):
            cases = [{'entry': 'run', 'device': 'TY', 'input': (h.encode() + b' ' + lit + b'\n').hex(), 'cap': None} for lit in FLOAT_LITERALS]
            obs = run.native(cases, release=rel)
            for lit, o in zip(FLOAT_LITERALS, obs):
                calls = [e for e in o.get('events', []) if e[0] == 'call']
                want = [ty, str(exact_float_bits(lit, ty))]
                if len(calls) != 1 or calls[0][2][0] != want:
                    if rel:
                        return True, {'literal': lit.decode(), 'delivered': calls, 'correctly_rounded': want}
                    break
            else:
                return None, {'note': 'no literal of the list shows a wrong value'}
        return None, {'note': 'not reproduced in release'}
    detail = {}
    ok_all = False      # reproduced in the dev or the release profile (both recorded)
    for rel in (False, True):
        o = run.native([{'entry': 'run', 'device': 'TY', 'input': v['input'], 'cap': None}], release=rel)[0]
        calls = [e for e in o.get('events', []) if e[0] == 'call']
        errs = [e for e in o.get('events', []) if e[0] == 'err']
        if v['rule'] in ('PANIC', 'HANG'):
            ok = o.get('panic') is not None
        elif v['rule'] == 'FLOAT':
            ok = len(calls) != 1 or calls[0][2][0] != v['want']
        elif v['rule'] == 'ARITY':
            from ..checks.arg_level import ArityCheck
            ok = True      # re-judged below from the message itself
            msg = bytes.fromhex(v['input'])
            h = msg.split(b' ')[0].strip().decode()
            n = 0 if b' ' not in msg else msg.count(b',') + 1
            want = {'N0': 0, 'N1': 1, 'N2': 2, 'N3': 3, 'N4': 4, 'N10': 10}[h]
            ok = (len(calls) != 1 or errs) if n == want else (bool(calls) or len(errs) != 1)
        else:
            ok = not native_arg_ok(bytes.fromhex(v['input']), v['ptype'], calls, errs, o)
        detail['release' if rel else 'dev'] = {'observation': o, 'reproduced': ok}
        ok_all = ok_all or ok
    return ok_all, detail


def native_arg_ok(msg, ty, calls, errs, o):
    """concrete reference judgement of one message `HDR <args>\\n` for a single-parameter handler"""
    from ..checks.arg_level import ref_lex, Undefined
    from ..mir import int_info
    region = list(msg[msg.index(b' ') + 1:-1])

    def T(c):
        return bool(c)

    def utf8(items):
        try:
            bytes(items).decode('utf-8')
            return True
        except UnicodeDecodeError:
            return False
    try:
        lits = ref_lex(T, region, utf8)
    except Undefined:
        return True
    if lits == 'INCOMPLETE':
        return not calls and not errs
    if lits is None or len(lits) != 1:
        return not calls and len(errs) == 1
    kind, st, en = lits[0][0], lits[0][1], lits[0][2]
    text = bytes(region[st:en])
    ii = int_info(ty)

    def called_with(arg):
        return len(calls) == 1 and not errs and calls[0][2][0] == arg

    def error(codes):
        return not calls and len(errs) == 1 and errs[0][1] in codes
    if ty == 'bool':
        if kind == 'chars' and text in (b'ON', b'on', b'OFF', b'off'):
            return called_with(['bool', '1' if text.upper() == b'ON' else '0'])
        if kind == 'chars' and text.lower() in (b'on', b'off', b'true', b'false'):
            return True
        if kind == 'dec' and text in (b'1', b'0'):
            return called_with(['bool', text.decode()])
        return error([-224] if kind in ('chars', 'dec') else [-224, -104])
    if ty == '&str':
        return called_with(['str', text.hex()]) if kind == 'string' else error([-104])
    if ty == '&[u8]':
        return called_with(['bytes', text.hex()]) if kind == 'block' else error([-104])
    if ty in ('f32', 'f64'):
        return called_with([ty, str(exact_float_bits(text, ty))]) if kind == 'dec' else error([-104])
    signed, bits = ii
    lo, hi = (-(1 << (bits - 1)), (1 << (bits - 1)) - 1) if signed else (0, (1 << bits) - 1)
    if kind == 'dec':
        if lits[0][3]['frac'] or lits[0][3]['exp']:
            return error([-120])
        if text.startswith(b'-') and not signed:
            return True
        val = int(text)
        return called_with(['int', str(val)]) if lo <= val <= hi else error([-120])
    if kind == 'radix':
        val = int(text, lits[0][3]['radix'])
        return called_with(['int', str(val)]) if val <= hi else error([-120])
    return error([-104])
