"""C11 -- lexical variations allowed by IEEE 488.2 do not change the meaning (DESIGN.md section 5, C11)."""
from ..runner import Inconclusive
from ..checks.run_level import LEX_BASE

SPEC = ('mirsym.checks.run_level', 'LexCheck')


def check(run):
    thorough = run.tier == 'thorough'
    run.validate_translator(0 if thorough else 400)
    cov = run.evidence['coverage']
    st = run.explore('twin (canonical log with an extra handler)', SPEC + ({'msg': 0, 'twin': True},), 300)
    tv = sum(1 for r in st['records'] if r.get('violations'))
    cov['vacuity']['twin_violations'] = tv
    if tv == 0:
        raise Inconclusive('vacuity twin found nothing')
    records = []
    total_ws = 3 if thorough else 2
    # short messages first: a change that makes the executor fork per letter blows up on the long ones, and a counterexample on a short
    # message should not have to wait for them
    order = sorted(range(len(LEX_BASE)), key=lambda i: sum(len(m) for u in LEX_BASE[i][1] for m in u[1]) + 4 * sum(len(u[3]) for u in LEX_BASE[i][1]))
    found = False
    for i in order:
        dev, units = LEX_BASE[i][:2]
        opts = LEX_BASE[i][2] if len(LEX_BASE[i]) > 2 else {}
        if found and run.unfinished:
            break               # the verdict is already a violation; the remaining explorations would only time out
        cap = 1800 if thorough else 300
        if len(run.unfinished) >= 3:
            cap = 60            # the run cannot end as a pass any more: look for counterexamples only briefly
        canon = ';'.join((':' if ab else '') + ':'.join(parts) + ('?' if q else '') + ((' ' + ','.join(a.decode() for a in args)) if args else '') for ab, parts, q, args in units)
        if opts:
            canon += (';' if opts.get('trailing') else '') + ' LF ' + opts.get('probe', b'').decode().strip()
        st = run.explore(f'{dev}: "{canon}" -- every case combination (symbolic), every short/long choice, up to {total_ws} extra white-space bytes (each over all 32 values) in any slots, LF / CR LF',
                         SPEC + ({'msg': i, 'total_ws': total_ws, 'max_ws': 2 if not thorough else 3},), cap)
        records.extend(st['records'])
        found = found or any(r.get('violations') for r in st['records'])
    viol = {}
    seen = set()
    for r in records:
        seen.add(r.get('msg'))
        for v in r.get('violations', []):
            cur = viol.get(v['role'])
            if cur is None or len(v['input']) < len(cur['input']):
                viol[v['role']] = v
        if 'sample' in r and len(cov['samples']) < 14:
            cov['samples'].append(r['sample'])
    cov['vacuity']['base_messages_explored'] = len(seen)
    cov['bounds'] = {'base_messages': len(LEX_BASE), 'devices': sorted({e[0] for e in LEX_BASE}), 'extra_white_space_bytes_per_message': total_ws,
                     'white_space_slots': 'before each unit, between header and parameters (at least one), before and after each comma, before ";" and before the terminator',
                     'outside': 'more white-space bytes per message; white space next to ":" inside a header (not among the positions the property lists); case of character data arguments (ON/OFF is scoped out by the anchors)'}
    run.evidence['assumptions'] = ['the canonical spelling is the long form in upper case with single blanks and LF; every variant is compared with it inside the same path']
    return {'violations': [dict(v, property='C11') for _, v in sorted(viol.items())], 'exhaustive': True}


def confirm(run, v):
    detail = {}
    ok_all = False      # reproduced in the dev or the release profile (both recorded)
    for rel in (False, True):
        a = run.native([{'entry': 'run', 'device': v['device'], 'input': v['input'], 'cap': None}], release=rel)[0]
        b = run.native([{'entry': 'run', 'device': v['device'], 'input': v['canonical'], 'cap': None}], release=rel)[0]
        if v['rule'] in ('PANIC', 'HANG'):
            ok = a.get('panic') is not None
        else:
            ok = (a.get('events'), a.get('out'), a.get('queue')) != (b.get('events'), b.get('out'), b.get('queue'))
        detail['release' if rel else 'dev'] = {'variant': a, 'canonical': b, 'reproduced': ok}
        ok_all = ok_all or ok
    return ok_all, detail
