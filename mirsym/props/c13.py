"""C13 -- parsing, dispatch and response formatting never allocate on the heap (DESIGN.md section 5, C13; partial).

What a solver-based executor can decide here:
  (1) the library builds with default features (no_std, no allocator) -- a precondition of the encoding itself;
  (2) on every path of representative symbolic explorations (run, process, responses, error queue) every executed call resolves
      to crate MIR, a harness stub or a core/heapless model -- an unknown callee in alloc:: / std:: is a violation candidate,
      any other unknown callee makes the run inconclusive;
  (3) static closure: no function reachable in the regenerated MIR dump from run / process / parse / write_response mentions an
      alloc:: or std:: path in a callee or a local's type.
Candidates are confirmed natively: the replay binary counts heap allocations made while library code runs.
"""
import os
import re

from ..runner import Inconclusive
from .. import mir

FREE = ('mirsym.checks.process_level', 'FreeCheck')
RESP = ('mirsym.checks.response_level', 'ResponseCheck')
QUEUE = ('mirsym.checks.queue_level', 'QueueCheck')

HEAP_STD_CRATE = re.compile(r'\b(alloc::|Box<|Box::|std::vec|std::string|std::boxed|std::collections|std::rc::|std::sync::Arc|exchange_malloc|__rust_alloc)')
HEAP = re.compile(r'\b(alloc::|std::(?!marker|ops|convert)|Box<|Box::|Rc<|Arc<|alloc::vec|BTreeMap|HashMap|exchange_malloc|__rust_alloc)')


def static_scan(paths):
    """returns (functions scanned, findings [(function, line)])"""
    fns, allocs = mir.read_mir(paths['mir_micro'], 'microscpi')
    findings = []
    n = 0
    for name, f in fns.items():
        if re.search(r'::fmt$|<impl at [^>]*>::fmt$', name) and ('Debug' in name or True) and False:
            continue
        n += 1
        texts = list(f.local_ty.values()) + [st for b in f.blocks.values() for st in b]
        for t in texts:
            if HEAP.search(t):
                findings.append((name, t.strip()[:200]))
                break
    # the generated dispatcher and statics of the device crate (macro output), handlers excluded
    fns2, _ = mir.read_mir(paths['mir_vdev'], 'vdev')
    for name, f in fns2.items():
        if not re.search(r'execute_command|root_node|SCPI_NODE', name):
            continue
        n += 1
        texts = list(f.local_ty.values()) + [st for b in f.blocks.values() for st in b]
        for t in texts:
            if HEAP_STD_CRATE.search(t):
                findings.append((name, t.strip()[:200]))
                break
    return n, findings


def check(run):
    thorough = run.tier == 'thorough'
    cov = run.evidence['coverage']
    # (1) no_std: the dump was produced by `cargo rustc --lib` with default features; make the attribute explicit
    lib = open(os.path.join(os.environ.get('VERIF_REPO', '/repo'), 'microscpi', 'src', 'lib.rs')).read()
    cargo = open(os.path.join(os.environ.get('VERIF_REPO', '/repo'), 'microscpi', 'Cargo.toml')).read()
    viol = {}
    if not re.search(r'#!\[cfg_attr\(not\(any\(test, feature = "std"\)\), no_std\)\]|#!\[no_std\]', lib):
        viol['NOSTD:attr'] = {'rule': 'NOSTD', 'what': 'lib.rs no longer declares no_std for the default feature set', 'input': '', 'role': 'NOSTD:attr'}
    m = re.search(r'\[features\](.*?)(\n\[|\Z)', cargo, re.S)
    dflt = re.search(r'default\s*=\s*\[(.*?)\]', m.group(1)) if m else None
    if dflt and 'std' in dflt.group(1):
        viol['NOSTD:default'] = {'rule': 'NOSTD', 'what': 'the std feature is enabled by default', 'input': '', 'role': 'NOSTD:default'}
    if re.search(r'extern\s+crate\s+alloc', lib):
        viol['NOSTD:alloc'] = {'rule': 'NOSTD', 'what': 'lib.rs links the alloc crate', 'input': '', 'role': 'NOSTD:alloc'}
    # (3) static scan of the regenerated dumps
    n, findings = static_scan(run.paths)
    cov['static_scan'] = {'functions_scanned': n, 'findings': findings[:10]}
    for fn, line in findings:
        viol.setdefault('STATIC:' + fn, {'rule': 'STATIC', 'what': f'{fn} mentions a heap type or allocator path: {line}', 'input': '', 'function': fn, 'role': 'STATIC:' + fn})
    # translator validation; when the static facts above already show a heap dependency, an executor that stops at an alloc:: callee
    # is the expected outcome and must not hide them
    try:
        run.validate_translator(0 if thorough else 400)
    except Inconclusive as e:
        if not viol:
            raise
        run.log(f'[C13] translator validation stopped ({str(e)[:120]}); static findings are reported and confirmed natively')
        return {'violations': [dict(v, property='C13') for _, v in sorted(viol.items())][:6], 'exhaustive': False}
    # native monitor on the whole differential corpus: the replay binary counts heap allocations made while library code runs
    # (handlers and the harness allocate outside the counted region)
    try:
        from .. import diffcorpus
        from ..replay import run_native
        cases = diffcorpus.corpus(run.seed, full=True)
        raw = run_native(cases, run.paths['vreplay'])
        bad = [(c, js.get('allocs')) for c, js in zip(cases, raw) if js.get('allocs')]
        cov['native_allocation_counter'] = {'cases': len(cases), 'cases_with_allocations': len(bad)}
        cov['traces_validated_against_impl'] += len(cases)
        run.log(f'[native] allocation counter: {len(bad)} of {len(cases)} corpus cases allocate inside library code')
        if bad:
            c = bad[0][0]
            viol['NATIVE:alloc'] = {'rule': 'NATIVE', 'what': f'{bad[0][1]} heap allocation(s) inside library code on {c.get("entry")} {c.get("device")} input {bytes.fromhex(c.get("input", "")).decode("latin1")!r}',
                                    'input': c.get('input', ''), 'case': c, 'role': 'NATIVE:alloc'}
    except Exception as e:
        run.log('[native] allocation counter not available: ' + repr(e)[:200])
    # (2) dynamic: representative explorations with the call-resolution monitor (an unknown callee aborts the run)
    records = []
    plans = [('run T1, free-form L=4, heapless response buffer (cap 8)', FREE + ({'entry': 'run', 'L': 4, 'cap': 8},)),
             ('process T1 N=4, free-form S=4, all chunkings', FREE + ({'entry': 'process', 'L': 4, 'N': 4},)),
             ('responses: strings through heapless::Vec<u8,256>', RESP + ({'query': 'RST', 'writer': 'heapless'},)),
             ('responses: tuple with string through the pass-through writer', RESP + ({'query': 'RT4'},)),
             ('responses: block', RESP + ({'query': 'RAR', 'writer': 'heapless'},)),
             ('error queue Q2, 3 operations', QUEUE + ({'device': 'Q2', 'depth': 3},))]
    if thorough:
        plans += [('run T1, free-form L=5', FREE + ({'entry': 'run', 'L': 5, 'cap': 8},)), ('process T1 N=6 S=5', FREE + ({'entry': 'process', 'L': 5, 'N': 6},))]
    for name, spec in plans:
        try:
            st = run.explore(name, spec, 1500)
        except Inconclusive as e:
            msg = str(e)
            mm = re.search(r'(alloc::[\w:<>]+|std::[\w:<>]+)', msg)
            if mm:
                viol['DYNAMIC:' + mm.group(1)] = {'rule': 'DYNAMIC', 'what': f'execution reached a call into {mm.group(1)} ({name})', 'input': '', 'role': 'DYNAMIC:' + mm.group(1)}
                continue
            raise
        records.extend(st['records'])
        for r in st['records']:
            for v in r.get('violations', []):
                pass        # functional violations belong to the other properties
    cov['bounds'] = {'explorations': [p[0] for p in plans], 'static': 'every function of the microscpi dump and the generated dispatcher/statics of the device crate',
                     'outside': 'allocation inside core / heapless themselves (neither links an allocator); the std writer (excluded by the property); user handlers'}
    run.evidence['assumptions'] = ['every native model stands for a core:: or heapless:: function, none of which allocates (heapless is a no-alloc crate)',
                                   'the MIR dump is that of the default-feature (no_std) build; its success is a precondition']
    for s in records[:4]:
        if 'sample' in s:
            cov['samples'].append(s['sample'])
    cov['samples'].append({'functions_executed': len(cov['functions_encoded'])})
    return {'violations': [dict(v, property='C13') for _, v in sorted(viol.items())][:6], 'exhaustive': True}


def confirm(run, v):
    """native: count heap allocations made by library code on representative cases with fixed-capacity buffers"""
    if v['rule'] == 'NOSTD':
        return True, {'note': 'source-level fact: ' + v['what']}
    if v['rule'] == 'NATIVE':
        from ..replay import run_native
        al = {('release' if rel else 'dev'): run_native([v['case']], run.paths['vreplay_release'] if rel else run.paths['vreplay'])[0].get('allocs') for rel in (False, True)}
        return any(al.values()), {'allocations': al}
    cases = [{'entry': 'run', 'device': 'T1', 'input': b'A:B;:X;U? 5;S "x";K #11a;FOO\nA:Q?\n'.hex(), 'cap': 64},
             {'entry': 'process', 'device': 'T1', 'input': b'A:Q?\nX\nFOO\nS "a\nb"\n'.hex(), 'n': 16, 'chunks': [], 'tail': 3},
             {'entry': 'run', 'device': 'TR', 'input': b'RST?;RT4?;RAR?;RF64?;RI64?;RHV?;RER?\n'.hex(), 'cap': 256},
             {'entry': 'run', 'device': 'TR', 'input': b'RST?;RHS?;RT2?\n'.hex(), 'cap': 256,
              'script': {'0': ['ok', 'str:' + 'say "hi" \u00b5'.encode().hex()], '1': ['ok', 'str:' + b'a"b'.hex()], '2': ['ok', 'tuple:[int:1;str:' + b'"'.hex() + ']']}},
             {'entry': 'run', 'device': 'Q2', 'input': b'ZZ\nZZ\nZZ\nSYST:ERR?\nSYST:ERR:COUN?\n'.hex(), 'cap': 256},
             {'entry': 'run', 'device': 'TY', 'input': b'N3 1,ON,"z"\nPF64 1.5e3\nPBL #11a\nPI64 -5\n'.hex(), 'cap': 256}]
    detail = {}
    any_alloc = False
    for rel in (False, True):
        import json
        from ..replay import run_native
        raw = run_native(cases, run.paths['vreplay_release'] if rel else run.paths['vreplay'])
        al = [js.get('allocs') for js in raw]
        detail['release' if rel else 'dev'] = {'allocations_per_case': al}
        if any(a for a in al):
            any_alloc = True
    if any_alloc:
        return True, detail
    return None, detail
