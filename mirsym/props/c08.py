"""C08 -- strings and blocks are transparent containers, also across reads (DESIGN.md section 5, C08)."""
from ..runner import Inconclusive

SPEC = ('mirsym.checks.run_level', 'PayloadCheck')


def check(run):
    thorough = run.tier == 'thorough'
    run.validate_translator(0 if thorough else 400)
    cov = run.evidence['coverage']
    st = run.explore('twin (wrong expected handler list)', SPEC + ({'entry': 'run', 'twin': True},), 300)
    tv = sum(1 for r in st['records'] if r.get('violations'))
    cov['vacuity']['twin_violations'] = tv
    if tv == 0:
        raise Inconclusive('vacuity twin found nothing')
    records = []
    ml = 6 if thorough else 3
    plans = [('run, whole message', {'entry': 'run', 'maxlen': ml, 'utf8': True, 'two_digit': thorough}),
             ('process, N = message length, a cut at every position + byte-at-a-time + all-at-once', {'entry': 'process', 'maxlen': ml, 'utf8': True, 'two_digit': thorough}),
             ('process, N = message length + 3', {'entry': 'process', 'maxlen': ml, 'slack': 3, 'utf8': True})]
    for name, params in plans:
        st = run.explore('[A:B;] S|K <payload> [;C] LF: ' + name, SPEC + (params,), 3000 if thorough else 600)
        records.extend(st['records'])
    viol = {}
    forms = {}
    for r in records:
        if 'form' in r:
            forms[r['form']] = forms.get(r['form'], 0) + 1
        for v in r.get('violations', []):
            cur = viol.get(v['role'])
            if cur is None or len(v['input']) < len(cur['input']):
                viol[v['role']] = v
        if 'sample' in r and len(cov['samples']) < 12:
            cov['samples'].append(r['sample'])
    cov['vacuity']['leaves_per_payload_form(0=block,1=dq string,2=sq string)'] = forms
    cov['bounds'] = {'payload_bytes': f'0..{ml}, blocks: all 256 values per byte; strings: every byte except the enclosing quote, ASCII plus one leading 2-byte UTF-8 sequence',
                     'positions': 'payload unit first or after the relative unit A:B; followed by nothing or by the relative unit C', 'schedules': 'every single cut position, one byte per read, whole message per read',
                     'outside': 'longer payloads, block headers with more than one length digit, several payload arguments in one unit (T1 handlers take one)'}
    run.evidence['assumptions'] = ['string payloads are assumed to be valid UTF-8 (the property quantifies over UTF-8 strings)']
    return {'violations': [dict(v, property='C08') for _, v in sorted(viol.items())], 'exhaustive': True}


def confirm(run, v):
    msg = bytes.fromhex(v['input'])
    if v['entry'] == 'run':
        case = {'entry': 'run', 'device': 'T1', 'input': v['input'], 'cap': 64}
    else:
        case = {'entry': 'process', 'device': 'T1', 'input': v['input'], 'n': v['n'], 'chunks': v.get('chunks') or [], 'tail': 1}
    # reference: the same message with the payload's newlines replaced (same length), given to run whole
    detail = {}
    ok_all = False      # reproduced in the dev or the release profile (both recorded)
    for rel in (False, True):
        obs = run.native([case], release=rel)[0]
        if v['rule'] in ('PANIC', 'HANG'):
            ok = obs.get('panic') is not None
        else:
            body = msg[:-1].replace(b'\n', b'.')
            ref = run.native([{'entry': 'run', 'device': 'T1', 'input': (body + b'\n').hex(), 'cap': 64}], release=rel)[0]
            def shape(o):
                return [(e[0], e[1], [len(a[1]) for a in e[2]]) if e[0] == 'call' else ('err',) for e in o.get('events', [])]
            # payload must arrive verbatim: compare handler ids and, for the payload, the exact bytes
            ok = shape(obs) != shape(ref) or any(e[0] == 'err' for e in obs.get('events', []))
            if not ok:
                # same handlers: check verbatim delivery
                pay = [a[1] for e in obs['events'] if e[0] == 'call' for a in e[2]]
                ok = not all(bytes.fromhex(p) in msg for p in pay)
        detail['release' if rel else 'dev'] = {'observation': obs, 'reproduced': ok}
        ok_all = ok_all or ok
    return ok_all, detail
