"""C08 -- strings and blocks are transparent containers, also across reads (DESIGN.md section 5, C08)."""
from ..runner import Inconclusive

SPEC = ('mirsym.checks.run_level', 'PayloadCheck')


def check(run):
    thorough = run.tier == 'thorough'
    run.validate_translator(0 if thorough else 400)
    cov = run.evidence['coverage']
    st = run.explore('twin (wrong expected handler list)', SPEC + ({'entry': 'run', 'twin': True},), 300)
    tv = sum(1 for r in st['records'] if r.get('violations'))
    cov['vacuity']['twin_violations'] = tv
    if tv == 0:
        raise Inconclusive('vacuity twin found nothing')
    records = []
    ml = 6 if thorough else 3
    plans = [('run, whole message', {'entry': 'run', 'maxlen': ml, 'utf8': True, 'two_digit': thorough}),
             ('process, N = message length, a cut at every position + byte-at-a-time + all-at-once', {'entry': 'process', 'maxlen': ml, 'utf8': True, 'two_digit': thorough}),
             ('process, N = message length + 3', {'entry': 'process', 'maxlen': ml, 'slack': 3, 'utf8': True})]
    for name, params in plans:
        st = run.explore('[A:B;] S|K <payload> [;C] LF: ' + name, SPEC + (params,), 3000 if thorough else 600)
        records.extend(st['records'])
    # payloads at argument positions 2 and 3 and two payloads in one unit (device TY)
    ARG = ('mirsym.checks.run_level', 'PayloadArgCheck')
    st = run.explore('argument positions: twin (one handler call too many expected)', ARG + ({'entry': 'run', 'maxlen': 1, 'twin': True},), 300)
    if not any(r.get('violations') for r in st['records']):
        raise Inconclusive('vacuity twin (argument positions) found nothing')
    al = 3 if thorough else 2
    for name, params in (('run, whole message', {'entry': 'run', 'maxlen': al}),
                         ('process, N = stream length, a cut at every position + byte-at-a-time + all-at-once', {'entry': 'process', 'maxlen': al}),
                         ('process, N = stream length + 3', {'entry': 'process', 'maxlen': al - 1, 'slack': 3})):
        st = run.explore('TY: N3 1,ON,<string> | MIX? -5,<block>,OFF | SS <string>,<string> | BB <block>,<block> [;N0] LF [N0 LF]: ' + name, ARG + (params,), 3000 if thorough else 600)
        records.extend(st['records'])
    viol = {}
    forms = {}
    for r in records:
        if 'form' in r:
            forms[r['form']] = forms.get(r['form'], 0) + 1
        for v in r.get('violations', []):
            cur = viol.get(v['role'])
            if cur is None or len(v['input']) < len(cur['input']):
                viol[v['role']] = v
        if 'sample' in r and len(cov['samples']) < 12:
            cov['samples'].append(r['sample'])
    cov['vacuity']['leaves_per_payload_form(0=block,1=dq string,2=sq string)'] = forms
    cov['bounds'] = {'payload_bytes': f'0..{ml}, blocks: all 256 values per byte; strings: every byte except the enclosing quote, ASCII plus one leading 2-byte UTF-8 sequence',
                     'positions': 'payload unit first or after the relative unit A:B; followed by nothing or by the relative unit C; on device TY: payload as 2nd of 3 and 3rd of 3 arguments, '
                                  f'two string / two block payloads of 0..{al} bytes each in one unit', 'schedules': 'every single cut position, one byte per read, whole message per read',
                     'outside': 'longer payloads, block headers with more than two length digits, more than two payload arguments in one unit, the indefinite block form'}
    run.evidence['assumptions'] = ['string payloads are assumed to be valid UTF-8 (the property quantifies over UTF-8 strings)']
    return {'violations': [dict(v, property='C08') for _, v in sorted(viol.items())], 'exhaustive': True}


def confirm(run, v):
    msg = bytes.fromhex(v['input'])
    devn = v.get('device', 'T1')
    cap = 64 if devn == 'T1' else 256
    if v['entry'] == 'run':
        case = {'entry': 'run', 'device': devn, 'input': v['input'], 'cap': cap}
    else:
        case = {'entry': 'process', 'device': devn, 'input': v['input'], 'n': v['n'], 'chunks': v.get('chunks') or [], 'tail': 1}
    # reference: the same message with the payload's newlines replaced (same length), given to run whole
    detail = {}
    ok_all = False      # reproduced in the dev or the release profile (both recorded)
    for rel in (False, True):
        obs = run.native([case], release=rel)[0]
        if v['rule'] in ('PANIC', 'HANG'):
            ok = obs.get('panic') is not None
        else:
            body = msg[:-1].replace(b'\n', b'.')
            ref = run.native([{'entry': 'run', 'device': devn, 'input': (body + b'\n').hex(), 'cap': cap}], release=rel)[0]
            def shape(o):
                return [(e[0], e[1], [len(a[1]) for a in e[2]]) if e[0] == 'call' else ('err',) for e in o.get('events', [])]
            # payload must arrive verbatim: compare handler ids and, for the payload, the exact bytes
            ok = shape(obs) != shape(ref) or any(e[0] == 'err' for e in obs.get('events', []))
            if not ok:
                # same handlers: check verbatim delivery
                pay = [a[1] for e in obs['events'] if e[0] == 'call' for a in e[2]]
                ok = not all(bytes.fromhex(p) in msg for p in pay)
        detail['release' if rel else 'dev'] = {'observation': obs, 'reproduced': ok}
        ok_all = ok_all or ok
    return ok_all, detail
