"""Cases, native replay (vreplay = the real compiled code) and the differential comparison with mirsym.

A *case* is a JSON-able dict:
  {"entry": "parse"|"run"|"process", "device": "T1", "input": "<hex>", "start": ["A"], "cap": 8|null,
   "n": 6, "chunks": [..], "tail": 1, "pend": [..], "hpend": 0, "fault": [k, code],
   "script": {"0": ["ok", "int:5"], "1": ["custom", -5, "<hex>"], "2": ["unit", -200]}}
An *observation* is what both executions must agree on.
"""
import json
import os
import subprocess
import tempfile

from .engine import (Adt, Tup, Slice, Ref, HVec, Deque, FloatVal, Token, UNIT, Unsupported, deref, is_sym, Panic)
from .world import ScriptAdapter, PassWriter, Rec, mk_error, mk_str, EOF_ERR
from .natives import as_slice
from . import mir


def hexs(b):
    return bytes(b).hex()


def case_text(case, cid):
    o = [f'case {cid}', f'entry {case["entry"]}', f'device {case["device"]}', f'input {case.get("input", "")}']
    if case.get('start'):
        o.append('start ' + ','.join(case['start']))
    if case.get('cap') == 'std':
        o.append('cap std')
    elif 'cap' in case and case['cap'] is not None:
        o.append(f'cap {case["cap"]}')
    else:
        o.append('cap none')
    if case.get('n'):
        o.append(f'n {case["n"]}')
    if case.get('chunks') is not None:
        o.append('chunks ' + ','.join(str(x) for x in case['chunks']))
    if case.get('tail') is not None:
        o.append(f'tailchunk {case["tail"]}')
    if case.get('pend'):
        o.append('pend ' + ','.join(str(x) for x in case['pend']))
    if case.get('hpend'):
        o.append(f'hpend {case["hpend"]}')
    if case.get('fault') is not None:
        o.append(f'fault {case["fault"][0]} {case["fault"][1]}')
    for k, sc in sorted((case.get('script') or {}).items(), key=lambda x: int(x[0])):
        if sc[0] == 'ok':
            o.append(f'script {k} ok {sc[1]}')
        elif sc[0] == 'custom':
            o.append(f'script {k} custom {sc[1]} {sc[2]}')
        else:
            o.append(f'script {k} unit {sc[1]}')
    o.append('end')
    return '\n'.join(o) + '\n'


def run_native(cases, binary, timeout=120):
    """run the cases through the real code; returns list of raw JSON dicts (same order)"""
    results = [None] * len(cases)
    todo = list(range(len(cases)))
    while todo:
        with tempfile.NamedTemporaryFile('w', suffix='.cases', delete=False, dir=os.path.dirname(binary)) as f:
            for i in todo:
                f.write(case_text(cases[i], i))
            path = f.name
        try:
            p = subprocess.run([binary, path], capture_output=True, text=True, timeout=timeout + 12 * len(todo))
        finally:
            os.remove(path)
        done = 0
        for line in p.stdout.splitlines():
            line = line.strip()
            if not line.startswith('{'):
                continue
            js = json.loads(line)
            results[int(js['id'])] = js
            done += 1
        if p.returncode == 3:
            # a case hung; it has been reported; continue with the rest
            todo = [i for i in todo if results[i] is None]
            continue
        if p.returncode != 0 and done < len(todo):
            raise RuntimeError(f'vreplay failed (exit {p.returncode}): {p.stderr[-2000:]}')
        todo = [i for i in todo if results[i] is None]
        if todo and done == 0:
            raise RuntimeError('vreplay made no progress: ' + p.stderr[-2000:])
    return results


def native_obs(js, case):
    """canonical observation from vreplay's JSON"""
    if js.get('unsupported'):
        raise Unsupported('vreplay cannot run this case: ' + js['unsupported'])
    o = {'panic': js.get('panic')}
    if js.get('panic'):
        o['panic'] = 'HANG' if js['panic'].startswith('HANG') else 'PANIC'
        return o
    if case['entry'] == 'parse':
        o['parse'] = js['parse']
        return o
    if case['entry'] == 'tree':
        o['tree'] = js['tree']
        return o
    o['events'] = [[e[0], e[1], e[2]] if e[0] == 'call' else [e[0], e[1], e[2]] for e in js['events']]
    o['out'] = js['out']
    if case['entry'] == 'run':
        o['rem'] = js['rem']
        if js.get('result') == 'NOT_A_SUFFIX':
            o['not_suffix'] = True
    else:
        o['trace'] = js['trace']
        o['result'] = js.get('result')
    if 'queue' in js:
        o['queue'] = js['queue']
    return o


# ----------------------------------------------------------------------------- mirsym side (concrete)
def canon_arg(v, ty):
    v = deref(v)
    ty = ty.strip()
    if ty == 'bool':
        return ['bool', '1' if v else '0']
    if ty in ('f32', 'f64'):
        if not isinstance(v, FloatVal) or not isinstance(v.bits, int):
            raise Unsupported('symbolic float in a concrete observation')
        return [ty, str(v.bits)]
    if ty == '&str':
        return ['str', hexs(as_slice(v).items())]
    if ty == '&[u8]':
        return ['bytes', hexs(as_slice(v).items())]
    return ['int', str(int(v))]


def ret_from_token(tok, ty):
    """script token ("int:5", "str:<hex>", "tuple:[..;..]") -> engine value for declared return type ty"""
    ty = ty.strip()
    if tok == 'unit':
        return UNIT
    kind, _, val = tok.partition(':')
    if kind == 'int':
        return int(val)
    if kind == 'bool':
        return val == '1'
    if kind in ('f32', 'f64'):
        return FloatVal(int(val), kind)
    if kind == 'str':
        b = list(bytes.fromhex(val))
        if ty.startswith('heapless::String<'):
            h = HVec(int(ty[17:-1]), True)
            h.items = b
            return h
        if ty == 'Characters':
            return Adt('Characters', None, [mk_str(b)])
        return mk_str(b)
    if kind == 'bytes':
        b = list(bytes.fromhex(val))
        if ty == 'Arbitrary':
            return Adt('Arbitrary', None, [Slice(b, 0, len(b))])
        return Slice(b, 0, len(b))
    if kind == 'err':
        return ('errnum', int(val))
    if kind in ('tuple', 'list'):
        parts = _split_ret(val[1:-1])
        pt = mir.parse_type(ty)
        if kind == 'tuple':
            return Tup([ret_from_token(p, mir.type_str(t)) for p, t in zip(parts, pt[1])])
        if pt[0] == '&':
            et = mir.type_str(pt[1][0][1][0])
            items = [ret_from_token(p, et) for p in parts]
            return Slice(items, 0, len(items))
        et = mir.type_str(pt[1][0])
        h = HVec(int(mir.type_str(pt[1][1])))
        h.items = [ret_from_token(p, et) for p in parts]
        return h
    raise Unsupported('ret token ' + tok)


def _split_ret(s):
    out, depth, cur = [], 0, ''
    for c in s:
        if c == '[':
            depth += 1
        elif c == ']':
            depth -= 1
        if c == ';' and depth == 0:
            out.append(cur)
            cur = ''
        else:
            cur += c
    if cur:
        out.append(cur)
    return out


class Observer:
    def __init__(s, world):
        s.w = world
        s._num2var = None

    def unit_variant(s, number):
        if s._num2var is None:
            s._num2var = {}
            for v in s.w.enums['Error']:
                if v == 'Custom':
                    continue
                s._num2var[s.w.error_number(mk_error(v))] = v
        return s._num2var[number]

    def install_script(s, dev, case):
        rec = dev.f[0]
        rec.hpend = case.get('hpend', 0) or 0
        decls = s.w.devices[dev.ty]['cmds']
        raw = case.get('script') or {}

        def resolve(sc):
            def thunk(ex, k, args):
                if sc[0] == 'ok':
                    v = ret_from_token(sc[1], decls[k]['ret'])
                    if isinstance(v, tuple) and v[0] == 'errnum':
                        v = mk_error(s.unit_variant(v[1]))
                    return ('ok', v)
                if sc[0] == 'custom':
                    return ('custom', int(sc[1]), list(bytes.fromhex(sc[2])))
                return ('unit', s.unit_variant(int(sc[1])))
            return thunk
        for k, sc in raw.items():
            rec.script[int(k)] = resolve(sc)

    def events(s, dev):
        out = []
        decls = s.w.devices[dev.ty]['cmds']
        for e in dev.f[0].events:
            if e[0] == 'call':
                out.append(['call', e[1], [canon_arg(a, t) for a, t in zip(e[2], decls[e[1]]['params'])]])
            else:
                num = s.w.error_number(e[1])
                txt = bytes(as_slice(s.w.error_text(e[1])).items()).decode()
                out.append(['err', int(num), txt])
        return out

    def queue(s, dev):
        if len(dev.f) < 2:
            return None
        return [[int(s.w.error_number(e)), bytes(as_slice(s.w.error_text(e)).items()).decode()] for e in s.w.queue_items(dev)]

    def node_name(s, devname, node):
        names, _ = s.w.node_names(devname)
        return names[id(deref(node))]

    def parse_obs(s, devname, r, total):
        if r.variant == 'Ok':
            rest, call = r.f[0].f
            consumed = total - rest.len
            if call.variant == 'None':
                return {'ok': {'consumed': consumed, 'call': None}}
            c = call.f[0]
            args = []
            for v in c.f[3].items:
                args.append([v.variant, hexs(as_slice(v.f[0]).items())])
            return {'ok': {'consumed': consumed, 'suffix': True, 'call': {
                'node': s.node_name(devname, c.f[0]),
                'header': s.node_name(devname, c.f[1].f[0]) if c.f[1].variant == 'Some' else None,
                'query': bool(c.f[2]), 'terminated': bool(c.f[4]), 'args': args}}}
        e = r.f[0]
        if e.variant == 'Incomplete':
            return {'err': ['Incomplete']}
        if e.variant == 'SoftError':
            if e.f[0].variant == 'None':
                return {'err': ['SoftNone']}
            return {'err': ['Soft', int(s.w.error_number(e.f[0].f[0]))]}
        return {'err': ['Fatal', int(s.w.error_number(e.f[0]))]}

    def observe(s, case):
        """execute the case concretely from MIR; returns the canonical observation"""
        w, ex = s.w, s.w.ex
        data = list(bytes.fromhex(case.get('input', '')))
        out, pend = ex.run_path([], lambda: s._exec(case, data))
        ex.end_path()
        if pend:
            raise Unsupported('concrete case forked')
        if out[0] == 'ok':
            return out[1]
        if out[0] == 'panic':
            return {'panic': 'PANIC', 'detail': out[1]}
        if out[0] == 'hang':
            return {'panic': 'HANG', 'detail': out[1]}
        raise Unsupported('concrete case: ' + repr(out))

    def _exec(s, case, data):
        w = s.w
        entry = case['entry']
        if entry == 'tree':
            return {'panic': None, 'tree': w.tree_json(case['device'])}
        if entry == 'parse':
            r = w.parse(case['device'], case.get('start') or None, data)
            return {'panic': None, 'parse': s.parse_obs(case['device'], r, len(data))}
        dev = w.new_device(case['device'])
        s.install_script(dev, case)
        if entry == 'run':
            if case.get('cap') == 'std':
                wr = HVec(10 ** 9)
                wr.std = True
            else:
                wr = HVec(case['cap']) if case.get('cap') is not None else PassWriter()
            rem = w.run(dev, data, wr)
            o = {'panic': None, 'events': s.events(dev), 'out': hexs(wr.items), 'rem': rem.len}
            if not (rem.len == 0 or (rem.buf is data and rem.start + rem.len == len(data))):
                o['not_suffix'] = True
            q = s.queue(dev)
            if q is not None:
                o['queue'] = q
            return o
        if entry == 'process':
            fault = case.get('fault')
            ad = ScriptAdapter(data, chunks=case.get('chunks') or [], tail=case.get('tail', 1) or 1,
                               fault=fault[0] if fault else None, fault_err=fault[1] if fault else None,
                               pend=case.get('pend') or [])
            r = w.process(dev, case['n'], ad)
            tr = []
            for t in ad.trace:
                if t[0] == 'r':
                    tr.append(f'r{t[1]}={t[2]}')
                elif t[0] == 'r!':
                    tr.append(f'r{t[1]}!' + ('eof' if t[2] == 'eof' else str(fault[1])))
                elif t[0] == 'w':
                    tr.append('w' + hexs(t[1]))
                elif t[0] == 'w!':
                    tr.append('w' + hexs(t[1]) + '!' + str(fault[1]))
                elif t[0] == 'f':
                    tr.append('f')
                elif t[0] == 'f!':
                    tr.append('f!' + str(fault[1]))
            res = 'ok' if r.variant == 'Ok' else f'err:{r.f[0]}'
            o = {'panic': None, 'events': s.events(dev), 'out': hexs(ad.out), 'trace': tr, 'result': res}
            q = s.queue(dev)
            if q is not None:
                o['queue'] = q
            return o
        raise Unsupported('entry ' + entry)


def same(a, b):
    """observations equal (ignoring diagnostic detail)"""
    a = {k: v for k, v in a.items() if k != 'detail'}
    b = {k: v for k, v in b.items() if k != 'detail'}
    return a == b
