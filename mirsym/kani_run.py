"""Kani leaf harnesses (compiled microscpi + heapless + core): run, parse, and replay failures by concrete playback."""
import os
import re
import shutil
import subprocess
import time

from . import build

VERIF = os.path.dirname(os.path.dirname(os.path.abspath(__file__)))


def run_harnesses(prefixes, timeout=1500, log=print):
    """returns dict(harnesses=[{name,status,time}], ok=bool, failed=[names], inconclusive=reason or None, wall_s)"""
    work = os.path.join(build.WORK, 'kani')
    src = os.path.join(VERIF, 'kani')
    shutil.rmtree(work, ignore_errors=True)
    os.makedirs(os.path.join(work, 'src'))
    toml = open(os.path.join(src, 'Cargo.toml')).read().replace('/repo/microscpi', os.path.join(build.REPO, 'microscpi'))
    open(os.path.join(work, 'Cargo.toml'), 'w').write(toml)
    shutil.copy(os.path.join(src, 'src', 'lib.rs'), os.path.join(work, 'src', 'lib.rs'))
    shutil.copy(os.path.join(build.REPO, 'Cargo.lock'), os.path.join(work, 'Cargo.lock'))
    names = re.findall(r'#\[kani::proof\]\s*(?:#\[kani::unwind\(\d+\)\]\s*)?fn (\w+)\(', open(os.path.join(src, 'src', 'lib.rs')).read())
    macro_names = re.findall(r'conv_harness!\((\w+),', open(os.path.join(src, 'src', 'lib.rs')).read())
    names = [n for n in names + macro_names if n != '$name' and any(n.startswith(p) for p in prefixes)]
    env = dict(os.environ, CARGO_NET_OFFLINE='true')
    env.pop('RUSTUP_TOOLCHAIN', None)
    cmd = ['cargo', 'kani', '--target-dir', os.path.join(build.WORK, 'tgt-kani'), '-j', '8', '--output-format', 'terse']
    for n in names:
        cmd += ['--harness', n]
    t0 = time.time()
    try:
        p = subprocess.run(cmd, cwd=work, env=env, capture_output=True, text=True, timeout=timeout)
    except subprocess.TimeoutExpired:
        return {'ok': False, 'inconclusive': f'cargo kani timed out after {timeout}s', 'harnesses': [], 'failed': [], 'wall_s': time.time() - t0}
    out = p.stdout + p.stderr
    res = {'harnesses': [], 'failed': [], 'inconclusive': None, 'wall_s': round(time.time() - t0, 1), 'names': names}
    m = re.search(r'Complete - (\d+) successfully verified harnesses, (\d+) failures, (\d+) total', out)
    if not m:
        res['ok'] = False
        res['inconclusive'] = 'cargo kani produced no summary: ' + out[-1500:]
        return res
    okn, failn, total = int(m.group(1)), int(m.group(2)), int(m.group(3))
    times = re.findall(r'Verification Time: ([\d.]+)s', out)
    res['solver_time_s'] = round(sum(float(t) for t in times), 1)
    res['checks'] = sum(int(x) for x in re.findall(r'\*\* \d+ of (\d+) failed', out))
    res['covers'] = len(re.findall(r'1 of 1 cover properties satisfied', out))
    if 'Status: ERROR' in out or 'out of memory' in out.lower() or 'unwinding assertion' in out and 'FAILURE' in out and False:
        res['inconclusive'] = 'a harness ended with an error status'
    if total != len(names):
        res['inconclusive'] = f'{total} harnesses ran, {len(names)} expected'
    failed = re.findall(r'Verification failed for - (?:\w+::)*(\w+)', out)
    res['failed'] = sorted(set(failed))
    if failn and not failed:
        res['inconclusive'] = 'failures reported but not attributable: ' + out[-800:]
    res['ok'] = (failn == 0 and okn == len(names) and res['inconclusive'] is None)
    res['raw_tail'] = out[-3000:] if failn else ''
    # a harness whose reachability witness (kani::cover!) is not satisfied proves nothing
    unsat_cover = re.findall(r'0 of 1 cover properties satisfied', out)
    if unsat_cover and not failn:
        res['ok'] = False
        res['inconclusive'] = 'a reachability witness (kani::cover!) was not satisfied: vacuous harness'
    return res


def playback(harness, timeout=900):
    """concrete playback of a failing harness: Kani writes a unit test with the solver's values into the crate; running it
    against the real (natively compiled) code must fail too.  returns (reproduced: bool, text)"""
    work = os.path.join(build.WORK, 'kani')
    env = dict(os.environ, CARGO_NET_OFFLINE='true')
    env.pop('RUSTUP_TOOLCHAIN', None)
    p = subprocess.run(['cargo', 'kani', '--target-dir', os.path.join(build.WORK, 'tgt-kani'), '--harness', harness, '-Z', 'concrete-playback', '--concrete-playback=inplace'],
                       cwd=work, env=env, capture_output=True, text=True, timeout=timeout)
    src = open(os.path.join(work, 'src', 'lib.rs')).read()
    m = re.search(r'fn (kani_concrete_playback_\w+)\(', src)
    if not m:
        return False, 'no playback test was generated: ' + (p.stdout + p.stderr)[-800:]
    test = m.group(1)
    q = subprocess.run(['cargo', 'kani', 'playback', '-Z', 'concrete-playback', '--', test], cwd=work, env=env, capture_output=True, text=True, timeout=timeout)
    out = q.stdout + q.stderr
    failed = ('test result: FAILED' in out) or ('panicked at' in out)
    vals = re.search(r'let concrete_vals: Vec<Vec<u8>> = vec!\[(.*?)\];', src, re.S)
    return failed, (vals.group(0)[:1500] if vals else '') + '\n' + out[-1200:]
