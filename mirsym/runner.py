"""Generic pipeline of a check run:  build -> validate translator -> explore -> confirm natively -> report.

Exit codes: 0 property held on everything explored (bounds in the evidence file); 1 violation (printed as
`VIOLATION property=<id> replay=<path>` after it reproduced on the real build); 2 inconclusive (build failure,
construct the executor cannot encode, model/real mismatch, solver unknown) -- never reported as success.
"""
import importlib
import json
import os
import random
import sys
import time
import traceback

from . import build, explore, diffcorpus
from .replay import run_native, native_obs

VERIF = os.path.dirname(os.path.dirname(os.path.abspath(__file__)))
OUT = os.environ.get('VERIF_OUT') or VERIF      # evidence/ and replays/ live here (scratch runs against seeded changes redirect it)
REPO = os.environ.get('VERIF_REPO', '/repo')


class Inconclusive(Exception):
    pass


def load_known(pid):
    path = os.path.join(VERIF, 'known_findings.jsonl')
    out = []
    if os.path.exists(path):
        for line in open(path):
            line = line.strip()
            if not line or line.startswith('#'):
                continue
            if line.startswith('fixed:'):
                continue
            try:
                d = json.loads(line)
            except ValueError:
                continue
            if d.get('property') == pid and d.get('status') == 'known':
                out.append(d)
    return out


class Run:
    def __init__(s, pid, tier, seed):
        s.pid, s.tier, s.seed = pid, tier, seed
        s.t0 = time.time()
        s.log_lines = []
        s.paths = None
        s.pool = None
        s.pool_std = None
        s.unfinished = []
        s.world = None
        s.evidence = {
            'property_id': pid, 'tier': tier, 'seed': seed, 'level': 'model_checking',
            'coverage': {'states': 0, 'transitions': 0, 'traces_validated_against_impl': 0, 'samples': [], 'exhaustive': False,
                         'explorations': [], 'solver_queries': 0, 'solver_time_s': 0.0, 'functions_encoded': [], 'native_models_used': [],
                         'bounds': {}, 'vacuity': {}, 'differential': {}},
            'assumptions': [], 'wall_s': 0.0, 'violations': 0,
        }

    def log(s, *a):
        msg = ' '.join(str(x) for x in a)
        print(msg, flush=True)

    # ---- stages
    def setup(s, release=False):
        try:
            s.paths = build.ensure(release=release, log=s.log)
        except build.BuildError as e:
            raise Inconclusive('the repository does not build: ' + str(e))
        s.pool = explore.Pool(s.paths, os.path.join(REPO, 'microscpi', 'src'))
        from .world import World
        try:
            s.world = World(s.paths['mir_micro'], s.paths['mir_vdev'], os.path.join(REPO, 'microscpi', 'src'))
        except Exception as e:
            raise Inconclusive('MIR dump could not be read: ' + repr(e))

    def setup_macros(s):
        """for checks on the proc-macro crate alone: no device crate, no replay binary"""
        try:
            s.paths = build.ensure_macros_only(log=s.log)
        except build.BuildError as e:
            raise Inconclusive('the proc-macro crate does not build: ' + str(e))
        s.pool = explore.Pool(s.paths, os.path.join(REPO, 'microscpi', 'src'))

    def validate_translator(s, n_cases):
        """differential concrete runs: real code vs mirsym on the same cases"""
        cases = diffcorpus.corpus(s.seed, full=(s.tier == 'thorough'))
        rnd = random.Random(s.seed)
        if n_cases and len(cases) > n_cases:
            keep = cases[:]
            rnd.shuffle(keep)
            cases = keep[:n_cases]
        t0 = time.time()
        n, mism = diffcorpus.differential(s.world, cases, s.paths['vreplay'], stop_after=3)
        s.evidence['coverage']['differential'] = {'cases': n, 'mismatches': len(mism), 'wall_s': round(time.time() - t0, 1)}
        s.evidence['coverage']['traces_validated_against_impl'] += n
        if mism:
            for c, a, b in mism:
                s.log('[translator] MISMATCH on', json.dumps(c))
                s.log('    real  :', json.dumps(a)[:400])
                s.log('    mirsym:', json.dumps(b)[:400])
            raise Inconclusive(f'translator validation failed on {len(mism)} of {n} concrete cases (encoding does not match the real code)')
        s.log(f'[translator] {n} concrete cases: real code and mirsym agree ({time.time() - t0:.1f}s)')

    def explore(s, name, spec, seconds, required=True, std=False, **kw):
        """run one exploration; returns stats (records included).  std=True: on the MIR of the std-feature build"""
        deadline = time.time() + seconds
        pool = s.pool
        if std:
            if s.pool_std is None:
                try:
                    s.paths = build.ensure(log=s.log, std=True)
                except build.BuildError as e:
                    raise Inconclusive('the std-feature build failed: ' + str(e))
                s.pool_std = explore.Pool(dict(s.paths, mir_micro=s.paths['mir_micro_std']), os.path.join(REPO, 'microscpi', 'src'), workers=8)
            pool = s.pool_std
        st = pool.explore(spec, deadline, **kw)
        cov = s.evidence['coverage']
        cov['states'] += st['paths']
        cov['transitions'] += st['transitions']
        cov['solver_queries'] += st['queries']
        cov['solver_time_s'] = round(cov['solver_time_s'] + st.get('solver_time', 0.0), 2)
        cov['functions_encoded'] = sorted(set(cov['functions_encoded']) | set(st['called']))
        cov['native_models_used'] = sorted(set(cov['native_models_used']) | set(st['natives']))
        cov['explorations'].append({'name': name, 'params': spec[2], 'paths': st['paths'], 'branch_decisions': st['transitions'],
                                    'solver_queries': st['queries'], 'solver_time_s': round(st.get('solver_time', 0.0), 2), 'complete': st['complete'], 'wall_s': round(st['wall'], 1),
                                    'cpu_s': round(st['worker_time'], 1)})
        s.log(f"[explore] {name}: {st['paths']} paths, {st['queries']} solver queries, {st['wall']:.1f}s wall, complete={st['complete']}")
        if st['errors']:
            for e in st['errors'][:3]:
                s.log('[explore] ' + e)
            raise Inconclusive(f'exploration {name} could not be encoded: ' + st['errors'][0][:500])
        if not st['complete'] and required:
            # keep going: the other explorations may still find a (confirmable) violation; without one the run is inconclusive
            s.unfinished.append(f'exploration {name} did not finish within its time cap ({seconds}s)')
        return st

    def cross_check(s, limit=150):
        """re-decide the sampled queries with cvc5; any disagreement or solver error makes the run inconclusive"""
        import glob
        import subprocess
        d = os.environ.get('VERIF_SMT_DUMP')
        if not d:
            return
        files = sorted(glob.glob(os.path.join(d, '*.smt2')))
        rnd = random.Random(s.seed)
        rnd.shuffle(files)
        files = files[:limit]
        agree = 0
        t0 = time.time()
        for f in files:
            want = 'unsat' if f.endswith('_unsat.smt2') else 'sat'
            try:
                p = subprocess.run(['cvc5', '--lang', 'smt2', f], capture_output=True, text=True, timeout=60)
            except subprocess.TimeoutExpired:
                raise Inconclusive('cvc5 timed out on ' + f)
            out = (p.stdout + p.stderr).strip().splitlines()
            got = out[0].strip() if out else ''
            if '(error' in p.stdout + p.stderr or got not in ('sat', 'unsat'):
                raise Inconclusive(f'cvc5 could not decide {f}: {(p.stdout + p.stderr)[:300]}')
            if got != want:
                raise Inconclusive(f'solvers disagree on {f}: z3 {want}, cvc5 {got}')
            agree += 1
        s.evidence['coverage']['second_solver'] = {'solver': 'cvc5', 'queries_rechecked': agree, 'disagreements': 0, 'wall_s': round(time.time() - t0, 1)}
        s.log(f'[cross-check] cvc5 agrees with z3 on {agree} sampled queries ({time.time() - t0:.1f}s)')
        for f in glob.glob(os.path.join(d, '*.smt2')):
            os.remove(f)

    def native(s, cases, release=False, std=False):
        b = s.paths['vreplay_std'] if std else (s.paths['vreplay_release'] if release else s.paths['vreplay'])
        raw = run_native(cases, b)
        s.evidence['coverage']['traces_validated_against_impl'] += len(cases)
        return [native_obs(js, c) for js, c in zip(raw, cases)]

    def finish(s, violations, known_hits, exhaustive):
        cov = s.evidence['coverage']
        cov['exhaustive'] = bool(exhaustive)
        s.evidence['violations'] = len(violations)
        s.evidence['wall_s'] = round(time.time() - s.t0, 1)
        s.evidence['coverage']['known_findings_reported'] = [k['key'] for k in known_hits]
        if not cov['samples']:
            cov['samples'] = ['(no sample recorded)']
        os.makedirs(os.path.join(OUT, 'evidence'), exist_ok=True)
        with open(os.path.join(OUT, 'evidence', s.pid + '.json'), 'w') as f:
            json.dump(s.evidence, f, indent=1, default=str)
        if s.pool:
            s.pool.close()
        if s.pool_std:
            s.pool_std.close()

    def write_replay(s, violation):
        d = os.path.join(OUT, 'replays', s.pid)
        os.makedirs(d, exist_ok=True)
        import hashlib
        h = hashlib.sha1(json.dumps(violation, sort_keys=True, default=str).encode()).hexdigest()[:12]
        p = os.path.join(d, h + '.json')
        with open(p, 'w') as f:
            json.dump(violation, f, indent=1, default=str)
        return p


def main(pid, tier, seed, replay=None):
    mod = importlib.import_module('mirsym.props.' + pid.lower())
    run = Run(pid, tier, seed)
    code = 0
    try:
        if replay:
            run.setup_macros() if getattr(mod, 'WORLD', 'micro') == 'macros' else run.setup(release=True)
            v = json.load(open(replay))
            ok, detail = mod.confirm(run, v)
            print(json.dumps(detail, indent=1, default=str))
            print('REPRODUCED' if ok else 'NOT REPRODUCED')
            run.pool.close()
            return 1 if ok else 0
        if tier == 'thorough' and not os.environ.get('VERIF_SMT_DUMP'):
            d = os.path.join(build.WORK, 'smt')
            os.makedirs(d, exist_ok=True)
            for f in os.listdir(d):
                os.remove(os.path.join(d, f))
            os.environ['VERIF_SMT_DUMP'] = d
        macros_only = getattr(mod, 'WORLD', 'micro') == 'macros'
        run.setup_macros() if macros_only else run.setup()
        result = mod.check(run)        # -> dict(violations=[...], exhaustive=bool)
        run.cross_check()
        violations = result.get('violations', [])
        known = load_known(pid)
        real, known_hits = [], []
        confirmed = []
        # confirm each distinct violation on the real build (dev and release) before reporting it
        if violations and not macros_only:
            try:
                run.paths = build.ensure(release=True, log=run.log)
            except build.BuildError as e:
                raise Inconclusive('release build for replay failed: ' + str(e))
        unconfirmable = []
        not_reproduced = []
        for v in violations:
            ok, detail = mod.confirm(run, v)
            if ok is None:
                # counterexample of an over-approximating model for which no concrete instance was found
                unconfirmable.append((v, detail))
                continue
            if not ok:
                run.log('[replay] counterexample did NOT reproduce on the real build:', json.dumps(v, default=str)[:600])
                run.log('         native:', json.dumps(detail, default=str)[:600])
                not_reproduced.append(v)
                continue
            v['native'] = detail
            hit = None
            for k in known:
                if k.get('key') == v.get('role'):
                    hit = k
            if hit:
                if hit not in known_hits:
                    known_hits.append(hit)
            else:
                confirmed.append(v)
        if not_reproduced and not confirmed:
            # nothing natively confirmed stands next to it: the encoding or an oracle is wrong somewhere, no verdict
            raise Inconclusive('a solver counterexample did not reproduce natively: the encoding or an oracle is wrong')
        for v in not_reproduced:
            run.log('[replay] (not reported: did not reproduce natively, while other counterexamples of this run did) ' + str(v.get('what'))[:200])
        if unconfirmable and not confirmed and not known_hits:
            for v, d in unconfirmable[:3]:
                run.log('[replay] no concrete instance found for:', str(v.get('what'))[:400], json.dumps(d, default=str)[:300])
            raise Inconclusive('counterexample(s) of the uninterpreted-run model could not be turned into a concrete stream on the generated devices; '
                               'neither a pass nor a confirmed violation')
        for v, d in unconfirmable:
            run.log('[replay] (not reported: no concrete instance found) ' + str(v.get('what'))[:200])
        for k in known_hits:
            print(f"KNOWN-FINDING: property={pid} {k['key']}: {k.get('what', '')}", flush=True)
        seen_roles = set()
        for v in confirmed:
            p = run.write_replay(v)
            if v.get('role') in seen_roles and len(seen_roles) >= 1 and False:
                continue
            seen_roles.add(v.get('role'))
            print(f'VIOLATION property={pid} replay={p}', flush=True)
            print('    ' + str(v.get('what', ''))[:300], flush=True)
        if confirmed:
            code = 1
        elif run.unfinished:
            raise Inconclusive(run.unfinished[0] + (f' (and {len(run.unfinished) - 1} more)' if len(run.unfinished) > 1 else ''))
        run.finish(confirmed, known_hits, result.get('exhaustive', False) and not run.unfinished)
        if code == 0:
            run.log(f'[{pid}] held on everything explored ({run.evidence["coverage"]["states"]} paths, '
                    f'{run.evidence["coverage"]["solver_queries"]} solver queries, {run.evidence["wall_s"]}s)')
        return code
    except Inconclusive as e:
        print(f'INCONCLUSIVE property={pid}: {e}', flush=True)
        try:
            run.evidence['coverage']['explanation'] = 'INCONCLUSIVE: ' + str(e)
            run.finish([], [], False)
        except Exception:
            pass
        return 2
    except Exception:
        print(f'INCONCLUSIVE property={pid}: internal error\n' + traceback.format_exc(), flush=True)
        try:
            if run.pool:
                run.pool.close()
        except Exception:
            pass
        return 2
