"""Differential validation of the translator: concrete cases are executed by the real compiled code
(vreplay) and by mirsym from MIR; the observations must be identical."""
import os
import random
import re

from .engine import Unsupported
from .replay import Observer, run_native, native_obs, same
from .mir import find_matching

REPO = os.environ.get('VERIF_REPO', '/repo')


def _unescape_rust_bytes(t):
    out = bytearray()
    i = 0
    while i < len(t):
        c = t[i]
        if c == '\\' and i + 1 < len(t):
            d = t[i + 1]
            if d == 'x':
                out.append(int(t[i + 2:i + 4], 16))
                i += 4
                continue
            if d == '\n':
                i += 2
                while i < len(t) and t[i] in ' \t':
                    i += 1
                continue
            out.append({'n': 10, 't': 9, 'r': 13, '0': 0, '\\': 92, "'": 39, '"': 34}.get(d, ord(d)))
            i += 2
            continue
        out.extend(c.encode('utf-8'))
        i += 1
    return bytes(out)


def harvest_literals():
    """every byte-string literal of the repository's own tests (parser.rs, tests.rs, lib.rs docs)"""
    lits = []
    for rel in ('microscpi/src/parser.rs', 'microscpi/tests/tests.rs', 'microscpi/src/lib.rs', 'README.md', 'microscpi/benches/basic.rs',
                'microscpi/src/value.rs', 'microscpi/src/response.rs'):
        p = os.path.join(REPO, rel)
        if not os.path.exists(p):
            continue
        txt = open(p, encoding='utf-8', errors='replace').read()
        for m in re.finditer(r'b"((?:[^"\\]|\\.)*)"', txt, re.S):
            try:
                lits.append(_unescape_rust_bytes(m.group(1)))
            except Exception:
                pass
        # the integer array literal of test_value_arbitrary
        for m in re.finditer(r'let input = \[([\d,\s]+)\];', txt):
            lits.append(bytes(int(x) for x in m.group(1).replace('\n', ' ').split(',') if x.strip()))
    seen = []
    for l in lits:
        if l not in seen and len(l) <= 80:
            seen.append(l)
    return seen


HAND = [
    b'A:B\n', b'a:b;c\n', b'A:B;:X;C\n', b'A:B;\nC\n', b'*R;A:B;*R;C\n', b':A:B;:A:C\n', b'A:X:C;Q?\n', b'A:X:Q?;C\n', b'A : B\n',
    b'A:Q?\n', b'*Q?;A:Q?\n', b'U? 5\n', b'U? 256\n', b'U? -1\n', b'U? #HFF\n', b'U? #H100\n', b'U? #B101\n', b'U? #Q17\n', b'U? +7\n',
    b'U? 1.5\n', b'U? 1e2\n', b'U?\n', b'U? 1,2\n', b'U? "x"\n', b'U? abc\n', b'B? ON\n', b'B? off\n', b'B? 1\n', b'B? 0\n', b'B? 2\n', b'B? On\n',
    b'B? TRUE\n', b'B? false\n', b'S "hi"\n', b"S 'hi'\n", b'S "a;b,c:d#e\'f"\n', b'S "a\nb"\nX\n', b'A:S "x";C\n', b'S ""\n', b'S "\xc3\xa9"\n', b'S "\xff"\n',
    b'K #13abc\n', b'K #213abcdefghijklm\n', b'K #10\n', b'K #13a\nb\nX\n', b'A:B;K #13a\nb\n', b'K #0\n', b'K #1\n', b'K #9000000001x\n', b'K #2ab\n',
    b'FOO\n', b'FOO\nX\nX\n', b'A:B?\n', b'A:Q\n', b'X 1\n', b'X?\n', b'A:\n', b':\n', b'::A\n', b'A::B\n', b'*\n', b'*R?\n', b'*Z\n', b'A:B;;C\n',
    b'\n', b'\n\n', b' \n', b'\r\n', b'X\r\n', b'  X  \n', b'X;\n', b'X ;C\n', b'X; C\n', b'X;C', b'X', b'', b'A:B;C;X\nA:C\n', b'!\n', b'X\n \n', b'X\n ',
    b'A:B 1\n', b'S 1,2,3,4,5,6,7,8,9,10,11\n', b'S 1,2,3,4,5,6,7,8,9,10\n', b'S "a" , "b"\n', b'S "a",\n', b'S ,\n', b'S "a" "b"\n', b'U? 1 2\n',
    b'U? 00005\n', b'U? 255\n', b'U? 0255\n', b'U? #h0f\n', b'U? #b11111111\n', b'U? #b111111111\n', b'U? #q377\n', b'U? #q400\n', b'U? #H\n', b'U? #\n',
    b'U? 1.\n', b'U? .5\n', b'U? 1e\n', b'U? --1\n', b'U? +\n', b'A:X:Q?\n', b'x\n', b'X@\n', b'\x00X\n', b'X\x0b\n', b'X\x7f\n', b'X\x80\n',
]

HAND_T2 = [
    b'ABC:DEF\n', b'AB:DF\n', b'abc:def\n', b'AB:DE\n', b'ABCD:DEF\n', b'X:Y\n', b'Y\n', b'Y?\n', b'X:Y?\n', b':Y?\n', b'TEST:A\n', b'TST:A?\n', b'TES:A\n',
    b'GH1_:I2 5\n', b'G1_:I2 5\n', b'GH1:I2 5\n', b'LEAF?\n', b'OPT:LEAF?\n', b'INN:LEAF?\n', b'OPT:INNER:LEAF?\n', b'INNE:LEAF?\n', b'*IDN?\n', b'*idn?\n',
    b'*RST\n', b'*RST?\n', b'SYST:VAL?\n', b'SYSTEM:VALUE?\n', b'SYSTE:VAL?\n', b'SYST:VERS?\n', b'SYST:ERR?\n', b'SYST:ERR:NEXT?\n', b'SYST:ERR:COUN?\n',
    b'FOO\nSYST:ERR?\nSYST:ERR?\n', b'FOO\nBAR\nSYST:ERR:COUN?\nSYST:ERR?;ERR?;ERR?\n', b'SYST:ERR:COUNT?;NEXT?\n',
]

HAND_TY = [
    b'PU8 255\n', b'PU8 256\n', b'PI8 -128\n', b'PI8 -129\n', b'PI8 127\n', b'PI8 128\n', b'PI8 +5\n', b'PI8 #H7F\n', b'PI8 #H80\n', b'PI8 #HFF\n',
    b'PU16 65535\n', b'PU16 65536\n', b'PI16 -32768\n', b'PI16 #B1111111111111111\n', b'PU32 4294967295\n', b'PU32 4294967296\n', b'PI32 -2147483648\n',
    b'PU64 18446744073709551615\n', b'PU64 18446744073709551616\n', b'PI64 -9223372036854775808\n', b'PI64 9223372036854775808\n', b'PUS 5\n', b'PIS -5\n',
    b'PF32 1.5\n', b'PF32 1e10\n', b'PF32 -0.25E-3\n', b'PF32 1e999\n', b'PF32 abc\n', b'PF64 3.141592653589793\n', b'PF64 .5\n', b'PF64 5.\n', b'PF64 +1E+2\n', b'PF64 "x"\n',
    b'PF64 0.1\n', b'PF32 0.1\n', b'PF64 123456789012345678901234567890\n', b'PF32 16777217\n', b'PF64 4.9e-324\n', b'PF64 -0\n', b'PF64 #H10\n',
    b'PBO ON\n', b'PBO 1\n', b'PBO OFF\n', b'PBO x\n', b'PBO "ON"\n', b'PBO 10\n', b'PST "s"\n', b'PST s\n', b'PST #11a\n', b'PBL #11a\n', b'PBL "a"\n',
    b'N0\n', b'N0 1\n', b'N1\n', b'N1 1\n', b'N1 1,2\n', b'N2 1,-2\n', b'N2 1\n', b'N3 1,ON,"z"\n', b'N3 1,"z",ON\n', b'N4 1,2,3,4\n', b'N4 1,2,3\n', b'N4 1,2,3,4,5\n',
    b'N10 1,2,3,4,5,6,7,8,9,10\n', b'N10 1,2,3,4,5,6,7,8,9\n', b'N10 1,2,3,4,5,6,7,8,9,10,11\n', b'MIX? -5,#12ab,OFF\n', b'MIX? -5,#12ab\n', b'MIX? 40000,#12ab,OFF\n',
]

HAND_TR = [b'RBO?\n', b'RU8?\n', b'RI8?\n', b'RU16?\n', b'RI16?\n', b'RU32?\n', b'RI32?\n', b'RU64?\n', b'RI64?\n', b'RUS?\n', b'RIS?\n', b'RF32?\n', b'RF64?\n', b'RST?\n',
           b'RHS?\n', b'RAR?\n', b'RCH?\n', b'RER?\n', b'RT2?\n', b'RT3?\n', b'RT4?\n', b'RSL?\n', b'RSS?\n', b'RHV?\n', b'RNT?\n', b'CMD\n', b'CMD?\n', b'RBO?;RU8?;CMD;RST?\n']

TR_SCRIPTS = [
    ('RBO?\n', {'0': ['ok', 'bool:0']}), ('RI8?\n', {'0': ['ok', 'int:-128']}), ('RU64?\n', {'0': ['ok', 'int:18446744073709551615']}),
    ('RI64?\n', {'0': ['ok', 'int:-9223372036854775808']}), ('RI16?\n', {'0': ['ok', 'int:0']}),
    ('RF32?\n', {'0': ['ok', 'f32:2143289344']}), ('RF32?\n', {'0': ['ok', 'f32:2139095040']}), ('RF32?\n', {'0': ['ok', 'f32:4286578688']}),
    ('RF32?\n', {'0': ['ok', 'f32:1036831949']}), ('RF32?\n', {'0': ['ok', 'f32:1']}), ('RF32?\n', {'0': ['ok', 'f32:2139095039']}), ('RF32?\n', {'0': ['ok', 'f32:2147483648']}),
    ('RF64?\n', {'0': ['ok', 'f64:9221120237041090560']}), ('RF64?\n', {'0': ['ok', 'f64:9218868437227405312']}), ('RF64?\n', {'0': ['ok', 'f64:18442240474082181120']}),
    ('RF64?\n', {'0': ['ok', 'f64:4591870180066957722']}), ('RF64?\n', {'0': ['ok', 'f64:1']}), ('RF64?\n', {'0': ['ok', 'f64:9218868437227405311']}),
    ('RF64?\n', {'0': ['ok', 'f64:4890909195324358656']}), ('RF64?\n', {'0': ['ok', 'f64:4457293557087583675']}),
    ('RST?\n', {'0': ['ok', 'str:' + b'say "hi"'.hex()]}), ('RST?\n', {'0': ['ok', 'str:' + '25 °C "Ω"'.encode().hex()]}), ('RHS?\n', {'0': ['ok', 'str:' + 'µ"'.encode().hex()]}), ('RST?\n', {'0': ['ok', 'str:']}), ('RHS?\n', {'0': ['ok', 'str:' + b'a"b'.hex()]}),
    ('RAR?\n', {'0': ['ok', 'bytes:']}), ('RAR?\n', {'0': ['ok', 'bytes:' + bytes(range(12)).hex()]}), ('RAR?\n', {'0': ['ok', 'bytes:0a']}),
    ('RCH?\n', {'0': ['ok', 'str:' + b'MAX'.hex()]}), ('RER?\n', {'0': ['ok', 'err:-113']}),
    ('RT2?\n', {'0': ['ok', 'tuple:[int:3;str:' + b'x,y'.hex() + ']']}), ('RT3?\n', {'0': ['ok', 'tuple:[int:-7;bool:1;int:0]']}),
    ('RT4?\n', {'0': ['ok', 'tuple:[int:1;str:;bool:0;int:-1]']}), ('RSL?\n', {'0': ['ok', 'bytes:010203']}), ('RSL?\n', {'0': ['ok', 'bytes:']}),
    ('RSS?\n', {'0': ['ok', 'list:[str:61;str:62]']}), ('RHV?\n', {'0': ['ok', 'list:[int:-1;int:2;int:3;int:4]']}), ('RHV?\n', {'0': ['ok', 'list:[]']}),
    ('RNT?\n', {'0': ['ok', 'tuple:[int:9;tuple:[bool:0;str:7a]]']}),
    ('RU8?\n', {'0': ['custom', -5, b'oops'.hex()]}), ('RU8?\n', {'0': ['unit', -200]}), ('RU8?;RU8?\n', {'0': ['unit', -222], '1': ['ok', 'int:9']}),
]


def corpus(seed=0, full=False):
    cases = []
    lits = harvest_literals()
    for l in lits:
        h = l.hex()
        cases.append({'entry': 'parse', 'device': 'T3', 'input': h})
        cases.append({'entry': 'run', 'device': 'T3', 'input': h, 'cap': None})
        cases.append({'entry': 'run', 'device': 'T1', 'input': h, 'cap': 256})
    for l in HAND:
        h = l.hex()
        cases.append({'entry': 'parse', 'device': 'T1', 'input': h})
        cases.append({'entry': 'parse', 'device': 'T1', 'input': h, 'start': ['A']})
        cases.append({'entry': 'run', 'device': 'T1', 'input': h, 'cap': 256})
        cases.append({'entry': 'run', 'device': 'T1', 'input': h, 'cap': None})
        if l.endswith(b'\n'):
            cases.append({'entry': 'process', 'device': 'T1', 'input': h, 'n': 16, 'chunks': [], 'tail': 1})
            cases.append({'entry': 'process', 'device': 'T1', 'input': h, 'n': 16, 'chunks': [], 'tail': 16})
            cases.append({'entry': 'process', 'device': 'T1', 'input': h, 'n': 6, 'chunks': [2, 0, 3], 'tail': 2})
    for l in HAND_T2:
        h = l.hex()
        cases.append({'entry': 'parse', 'device': 'T2', 'input': h})
        cases.append({'entry': 'run', 'device': 'T2', 'input': h, 'cap': 256})
        cases.append({'entry': 'run', 'device': 'T3', 'input': h, 'cap': 256})
        cases.append({'entry': 'process', 'device': 'T3', 'input': h, 'n': 32, 'chunks': [], 'tail': 3})
    for l in HAND_TY:
        cases.append({'entry': 'run', 'device': 'TY', 'input': l.hex(), 'cap': 256})
    for l in HAND_TR:
        cases.append({'entry': 'run', 'device': 'TR', 'input': l.hex(), 'cap': 256})
        cases.append({'entry': 'run', 'device': 'TR', 'input': l.hex(), 'cap': None})
    for msg, sc in TR_SCRIPTS:
        # (responses longer than the buffer leave a partial prefix behind whose extent depends on core::fmt's
        #  internal piece boundaries; that content is outside every claim, so those two cases use the unbounded writer only)
        if sc.get('0', [None, ''])[1] not in ('f64:1', 'f64:9218868437227405311'):
            cases.append({'entry': 'run', 'device': 'TR', 'input': msg.encode().hex(), 'cap': 256, 'script': sc})
        cases.append({'entry': 'run', 'device': 'TR', 'input': msg.encode().hex(), 'cap': None, 'script': sc})
    # response buffers that are too small, every capacity
    for cap in range(0, 9):
        cases.append({'entry': 'run', 'device': 'T1', 'input': b'A:Q?;*Q?\n'.hex(), 'cap': cap, 'script': {'0': ['ok', 'int:123']}})
        cases.append({'entry': 'run', 'device': 'TR', 'input': b'RI16?\n'.hex(), 'cap': cap, 'script': {'0': ['ok', 'int:-12345']}})
        cases.append({'entry': 'run', 'device': 'TR', 'input': b'RST?\n'.hex(), 'cap': cap, 'script': {'0': ['ok', 'str:' + b'abc'.hex()]}})
        cases.append({'entry': 'run', 'device': 'TR', 'input': b'RAR?\n'.hex(), 'cap': cap, 'script': {'0': ['ok', 'bytes:' + b'abc'.hex()]}})
    # error-queue devices
    for dev in ('Q1', 'Q2', 'Q3', 'Q4', 'T3'):
        for msg in (b'FOO\n', b'FOO\nBAR\nU? 999\nX?\n', b'FOO\nSYST:ERR?\nSYST:ERR?\n', b'FOO\nBAR\nBAZ\nSYST:ERR:COUN?\nSYST:ERR?;ERR?;ERR?;ERR?\n',
                    b'SYST:ERR:NEXT?;COUN?\n', b'X?;FOO;SYST:ERR?\n'):
            cases.append({'entry': 'run', 'device': dev, 'input': msg.hex(), 'cap': 256})
    # process: faults, pending, handler errors
    base = b'A:Q?\nX\n*Q?\n'.hex()
    for k in range(0, 9):
        cases.append({'entry': 'process', 'device': 'T1', 'input': base, 'n': 8, 'chunks': [], 'tail': 4, 'fault': [k, 77]})
    cases.append({'entry': 'process', 'device': 'T1', 'input': base, 'n': 8, 'chunks': [], 'tail': 1, 'pend': [0, 1, 2, 3, 5, 8], 'hpend': 2})
    cases.append({'entry': 'run', 'device': 'T1', 'input': b'X;A:C;*Q?\n'.hex(), 'cap': 16, 'hpend': 3})
    cases.append({'entry': 'run', 'device': 'T1', 'input': b'X;A:Q?;C\nX\n'.hex(), 'cap': 16, 'script': {'1': ['custom', -42, b'bad'.hex()]}})
    cases.append({'entry': 'process', 'device': 'T1', 'input': b'A:Q?\n'.hex(), 'n': 4, 'chunks': [], 'tail': 1, 'script': {'0': ['ok', 'int:123']}})
    for n in range(1, 9):
        cases.append({'entry': 'process', 'device': 'T1', 'input': b'X\nA:B;C\n\nFOO\nX\n'.hex(), 'n': n, 'chunks': [], 'tail': 3})
    rnd = random.Random(seed)
    alpha = b'ABCXQ*R:;? \n#"\',1KSU'
    for _ in range(300 if full else 60):
        l = bytes(rnd.choice(alpha) for _ in range(rnd.randint(1, 10)))
        cases.append({'entry': 'parse', 'device': 'T1', 'input': l.hex(), 'start': rnd.choice([[], ['A'], ['A', 'X']])})
        cases.append({'entry': 'run', 'device': 'T1', 'input': l.hex(), 'cap': rnd.choice([0, 1, 2, 8, 256])})
        cases.append({'entry': 'process', 'device': 'T1', 'input': l.hex() + '0a', 'n': rnd.randint(1, 12), 'chunks': [rnd.randint(0, 4) for _ in range(4)], 'tail': rnd.randint(1, 5)})
    return cases


def differential(world, cases, binary, log=print, stop_after=10):
    """returns (n_compared, mismatches: list of (case, native, mirsym))"""
    obs = Observer(world)
    raw = run_native(cases, binary)
    mism = []
    n = 0
    for case, js in zip(cases, raw):
        nat = native_obs(js, case)
        try:
            mine = obs.observe(case)
        except Unsupported as e:
            mine = {'unsupported': str(e), 'stack': list(world.ex.stack[-4:])}
        n += 1
        if not same(nat, mine):
            mism.append((case, nat, mine))
            if len(mism) >= stop_after:
                break
    return n, mism
