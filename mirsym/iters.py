"""Generic model of core's iterator protocol: slice iterators, str::bytes/chars, and the lazy adaptors
(map, zip, enumerate, copied/cloned, filter, rev, take/skip[_while], chain) with the usual consumers."""
import re
import z3

from .engine import (Adt, Tup, Slice, Ref, Iter, HVec, Unsupported, Panic, Some, NONE, deref, is_sym, copy_val)
from . import natives as N
from .natives import NATIVES, as_slice, _eq, And, Or, Not

FIRST = []


def native_first(pattern, label):
    def deco(f):
        FIRST.append((re.compile(pattern), f, label))
        return f
    return deco


class Adaptor:
    __slots__ = ('kind', 'a', 'b', 'f', 'n', 'state')

    def __init__(s, kind, a=None, b=None, f=None, n=0):
        s.kind, s.a, s.b, s.f, s.n, s.state = kind, a, b, f, n, 0


END = object()


def pull(ex, it):
    """next item of any modelled iterator, or END"""
    it = deref(it)
    if isinstance(it, Iter):
        if it.pos >= it.sl.len:
            return END
        r = Ref(it.sl.buf, it.sl.start + it.pos)
        if it.by_value:
            r = r.get()
        i = it.pos
        it.pos += 1
        return Tup([i, r]) if it.enum else r
    if type(it).__name__ == 'CharsIter':
        o = N.n_chars_next(ex, 'next', [it], None)
        return END if o.variant == 'None' else o.f[0]
    if isinstance(it, Adaptor):
        k = it.kind
        if k == 'map':
            x = pull(ex, it.a)
            return END if x is END else ex.call_value(it.f, [x])
        if k == 'zip':
            x = pull(ex, it.a)
            if x is END:
                return END
            y = pull(ex, it.b)
            return END if y is END else Tup([x, y])
        if k == 'enumerate':
            x = pull(ex, it.a)
            if x is END:
                return END
            i = it.state
            it.state += 1
            return Tup([i, x])
        if k == 'copied':
            x = pull(ex, it.a)
            return END if x is END else copy_val(deref(x))
        if k == 'filter':
            while True:
                x = pull(ex, it.a)
                if x is END:
                    return END
                if ex.truth(ex.call_value(it.f, [Ref([x], 0)])):
                    return x
        if k == 'rev':
            return pull_back(ex, it.a)
        if k == 'take':
            if it.state >= it.n:
                return END
            it.state += 1
            return pull(ex, it.a)
        if k == 'skip':
            while it.state < it.n:
                it.state += 1
                if pull(ex, it.a) is END:
                    return END
            return pull(ex, it.a)
        if k == 'take_while':
            if it.state:
                return END
            x = pull(ex, it.a)
            if x is END:
                return END
            if ex.truth(ex.call_value(it.f, [Ref([x], 0)])):
                return x
            it.state = 1
            return END
        if k == 'skip_while':
            while not it.state:
                x = pull(ex, it.a)
                if x is END:
                    return END
                if not ex.truth(ex.call_value(it.f, [Ref([x], 0)])):
                    it.state = 1
                    return x
            return pull(ex, it.a)
        if k == 'chain':
            if not it.state:
                x = pull(ex, it.a)
                if x is not END:
                    return x
                it.state = 1
            return pull(ex, it.b)
    raise Unsupported(f'iterator {it!r}')


def pull_back(ex, it):
    it = deref(it)
    if isinstance(it, Iter) and not it.enum:
        if it.pos >= it.sl.len:
            return END
        r = Ref(it.sl.buf, it.sl.start + it.sl.len - 1)
        if it.by_value:
            r = r.get()
        it.sl = Slice(it.sl.buf, it.sl.start, it.sl.len - 1, it.sl.is_str)
        return r
    if isinstance(it, Adaptor):
        if it.kind == 'map':
            x = pull_back(ex, it.a)
            return END if x is END else ex.call_value(it.f, [x])
        if it.kind == 'copied':
            x = pull_back(ex, it.a)
            return END if x is END else copy_val(deref(x))
        if it.kind == 'rev':
            return pull(ex, it.a)
    raise Unsupported(f'double-ended iteration of {it!r}')


def to_iter(v):
    v = deref(v)
    if isinstance(v, (Iter, Adaptor)) or type(v).__name__ == 'CharsIter':
        return v
    return Iter(as_slice(v))


ITER_RECV = r'as (Iterator|DoubleEndedIterator|ExactSizeIterator)>::'


@native_first(r'as IntoIterator>::into_iter$', 'IntoIterator::into_iter')
def i_into_iter(ex, callee, a, env):
    return to_iter(a[0])


@native_first(ITER_RECV + r'next$', 'Iterator::next')
def i_next(ex, callee, a, env):
    x = pull(ex, a[0])
    return NONE() if x is END else Some(x)


@native_first(ITER_RECV + r'next_back$', 'DoubleEndedIterator::next_back')
def i_next_back(ex, callee, a, env):
    x = pull_back(ex, a[0])
    return NONE() if x is END else Some(x)


@native_first(ITER_RECV + r'map$', 'Iterator::map')
def i_map(ex, callee, a, env):
    return Adaptor('map', a=to_iter(a[0]), f=a[1])


@native_first(ITER_RECV + r'zip$', 'Iterator::zip')
def i_zip(ex, callee, a, env):
    return Adaptor('zip', a=to_iter(a[0]), b=to_iter(a[1]))


@native_first(ITER_RECV + r'enumerate$', 'Iterator::enumerate')
def i_enumerate(ex, callee, a, env):
    it = to_iter(a[0])
    if isinstance(it, Iter) and not it.enum and it.pos == 0:
        it.enum = True
        return it
    return Adaptor('enumerate', a=it)


@native_first(ITER_RECV + r'(copied|cloned)$', 'Iterator::copied')
def i_copied(ex, callee, a, env):
    return Adaptor('copied', a=to_iter(a[0]))


@native_first(ITER_RECV + r'filter$', 'Iterator::filter')
def i_filter(ex, callee, a, env):
    return Adaptor('filter', a=to_iter(a[0]), f=a[1])


@native_first(ITER_RECV + r'rev$', 'Iterator::rev')
def i_rev(ex, callee, a, env):
    return Adaptor('rev', a=to_iter(a[0]))


@native_first(ITER_RECV + r'(take|skip)$', 'Iterator::take/skip')
def i_take_skip(ex, callee, a, env):
    n = a[1] if isinstance(a[1], int) else ex.concretize(a[1], 0, 64)
    return Adaptor('take' if callee.endswith('take') else 'skip', a=to_iter(a[0]), n=n)


@native_first(ITER_RECV + r'(take_while|skip_while)$', 'Iterator::take_while/skip_while')
def i_take_while(ex, callee, a, env):
    return Adaptor('take_while' if callee.endswith('take_while') else 'skip_while', a=to_iter(a[0]), f=a[1])


@native_first(ITER_RECV + r'chain$', 'Iterator::chain')
def i_chain(ex, callee, a, env):
    return Adaptor('chain', a=to_iter(a[0]), b=to_iter(a[1]))


@native_first(ITER_RECV + r'position$', 'Iterator::position')
def i_position(ex, callee, a, env):
    i = 0
    while True:
        x = pull(ex, a[0])
        if x is END:
            return NONE()
        if ex.truth(ex.call_value(a[1], [x])):
            return Some(i)
        i += 1


@native_first(ITER_RECV + r'rposition$', 'Iterator::rposition')
def i_rposition(ex, callee, a, env):
    it = deref(a[0])
    if not isinstance(it, Iter):
        raise Unsupported('rposition on a non-slice iterator')
    i = it.sl.len - it.pos
    while True:
        x = pull_back(ex, it)
        if x is END:
            return NONE()
        i -= 1
        if ex.truth(ex.call_value(a[1], [x])):
            return Some(i)


@native_first(ITER_RECV + r'(any|all)$', 'Iterator::any/all')
def i_any_all(ex, callee, a, env):
    want_any = callee.endswith('any')
    while True:
        x = pull(ex, a[0])
        if x is END:
            return not want_any
        t = ex.truth(ex.call_value(a[1], [x]))
        if want_any and t:
            return True
        if not want_any and not t:
            return False


@native_first(ITER_RECV + r'find$', 'Iterator::find')
def i_find(ex, callee, a, env):
    while True:
        x = pull(ex, a[0])
        if x is END:
            return NONE()
        if ex.truth(ex.call_value(a[1], [Ref([x], 0)])):
            return Some(x)


@native_first(ITER_RECV + r'(count|len)$', 'Iterator::count')
def i_count(ex, callee, a, env):
    it = deref(a[0])
    if isinstance(it, Iter):
        return it.sl.len - it.pos
    n = 0
    while pull(ex, it) is not END:
        n += 1
    return n


@native_first(ITER_RECV + r'last$', 'Iterator::last')
def i_last(ex, callee, a, env):
    last = END
    while True:
        x = pull(ex, a[0])
        if x is END:
            return NONE() if last is END else Some(last)
        last = x


@native_first(ITER_RECV + r'nth$', 'Iterator::nth')
def i_nth(ex, callee, a, env):
    n = a[1] if isinstance(a[1], int) else ex.concretize(a[1], 0, 64)
    for _ in range(n):
        if pull(ex, a[0]) is END:
            return NONE()
    x = pull(ex, a[0])
    return NONE() if x is END else Some(x)


@native_first(ITER_RECV + r'fold$', 'Iterator::fold')
def i_fold(ex, callee, a, env):
    acc = a[1]
    while True:
        x = pull(ex, a[0])
        if x is END:
            return acc
        acc = ex.call_value(a[2], [acc, x])


@native_first(ITER_RECV + r'for_each$', 'Iterator::for_each')
def i_for_each(ex, callee, a, env):
    from .engine import UNIT
    while True:
        x = pull(ex, a[0])
        if x is END:
            return UNIT
        ex.call_value(a[1], [x])


def ordering(name):
    return Adt('Ordering', name, [])


def cmp_scalar(ex, x, y, signed=False):
    """Ord::cmp on integers / bytes (symbolic values fork)"""
    x, y = deref(x), deref(y)
    if isinstance(x, (int, bool)) and isinstance(y, (int, bool)):
        return ordering('Less' if x < y else 'Equal' if x == y else 'Greater')
    if ex.truth(_eq(x, y) if not (is_sym(x) and is_sym(y)) else x == y):
        return ordering('Equal')
    X = x if is_sym(x) else z3.BitVecVal(x, y.size())
    Y = y if is_sym(y) else z3.BitVecVal(y, x.size())
    lt = (X < Y) if signed else z3.ULT(X, Y)
    return ordering('Less' if ex.truth(lt) else 'Greater')


@native_first(ITER_RECV + r'(cmp|partial_cmp)$', 'Iterator::cmp')
def i_cmp(ex, callee, a, env):
    partial = callee.endswith('partial_cmp')
    while True:
        x = pull(ex, a[0])
        y = pull(ex, to_iter(a[1]) if not isinstance(deref(a[1]), (Iter, Adaptor)) else a[1])
        if x is END and y is END:
            r = ordering('Equal')
        elif x is END:
            r = ordering('Less')
        elif y is END:
            r = ordering('Greater')
        else:
            r = cmp_scalar(ex, x, y)
            if r.variant == 'Equal':
                continue
        return Some(r) if partial else r


@native_first(ITER_RECV + r'(eq|ne)$', 'Iterator::eq')
def i_eq(ex, callee, a, env):
    ne = callee.endswith('ne')
    other = a[1] if isinstance(deref(a[1]), (Iter, Adaptor)) else to_iter(a[1])
    while True:
        x = pull(ex, a[0])
        y = pull(ex, other)
        if x is END and y is END:
            return ne is False
        if x is END or y is END:
            return ne
        if not ex.truth(N.values_equal(ex, x, y)):
            return ne


@native_first(r'^<(u8|u16|u32|u64|usize|char) as (Ord|PartialOrd)>::(cmp|partial_cmp)$', 'uint::cmp')
def i_ucmp(ex, callee, a, env):
    r = cmp_scalar(ex, a[0], a[1], False)
    return Some(r) if callee.endswith('partial_cmp') else r


@native_first(r'^<(i8|i16|i32|i64|isize) as (Ord|PartialOrd)>::(cmp|partial_cmp)$', 'int::cmp')
def i_icmp(ex, callee, a, env):
    r = cmp_scalar(ex, a[0], a[1], True)
    return Some(r) if callee.endswith('partial_cmp') else r


@native_first(r'^<(&)?(str|\[u8\]) as (Ord|PartialOrd)>::(cmp|partial_cmp)$', 'str::cmp')
def i_strcmp(ex, callee, a, env):
    x, y = list(as_slice(a[0]).items()), list(as_slice(a[1]).items())
    for p, q in zip(x, y):
        r = cmp_scalar(ex, p, q)
        if r.variant != 'Equal':
            return Some(r) if callee.endswith('partial_cmp') else r
    r = ordering('Less' if len(x) < len(y) else 'Equal' if len(x) == len(y) else 'Greater')
    return Some(r) if callee.endswith('partial_cmp') else r


@native_first(r'Ordering::(is_eq|is_ne|is_lt|is_gt|is_le|is_ge|reverse|then)$', 'Ordering::*')
def i_ordering(ex, callee, a, env):
    o = deref(a[0])
    m = callee.rsplit('::', 1)[1]
    v = o.variant
    if m == 'reverse':
        return ordering({'Less': 'Greater', 'Equal': 'Equal', 'Greater': 'Less'}[v])
    if m == 'then':
        return o if v != 'Equal' else a[1]
    return {'is_eq': v == 'Equal', 'is_ne': v != 'Equal', 'is_lt': v == 'Less', 'is_gt': v == 'Greater', 'is_le': v != 'Greater', 'is_ge': v != 'Less'}[m]


@native_first(r'^(core::)?slice::<impl \[.*\]>::binary_search_by$', 'slice::binary_search_by')
def i_binary_search_by(ex, callee, a, env):
    """exactly core's algorithm (its probing sequence matters when the slice is not sorted for the comparator)"""
    from .engine import Ok, Err
    sl = as_slice(a[0])
    f = a[1]
    size = sl.len
    if size == 0:
        return Err(0)
    base = 0
    while size > 1:
        half = size // 2
        mid = base + half
        c = ex.call_value(f, [Ref(sl.buf, sl.start + mid)])
        base = base if c.variant == 'Greater' else mid
        size -= half
    c = ex.call_value(f, [Ref(sl.buf, sl.start + base)])
    if c.variant == 'Equal':
        return Ok(base)
    return Err(base + (1 if c.variant == 'Less' else 0))


def install():
    NATIVES[:0] = FIRST


def _try_parts(r):
    """(continue?, payload) of a value of a Try type (Result / Option / ControlFlow)"""
    r = deref(r)
    if isinstance(r, Adt) and r.variant in ('Ok', 'Some', 'Continue'):
        return True, (r.f[0] if r.f else None)
    return False, r


@native_first(ITER_RECV + r'try_fold(::<.*>)?$', 'Iterator::try_fold')
def i_try_fold(ex, callee, a, env):
    acc = a[1]
    wrap = None
    while True:
        x = pull(ex, a[0])
        if x is END:
            break
        r = ex.call_value(a[2], [acc, x])
        go, payload = _try_parts(r)
        wrap = deref(r)
        if not go:
            return r
        acc = payload
    if wrap is not None:
        return Adt(wrap.ty, wrap.variant, [acc])
    m = re.search(r'try_fold::<.*,\s*(Result|Option|ControlFlow)<', callee)
    head = m.group(1) if m else 'Result'
    return Adt(head, {'Result': 'Ok', 'Option': 'Some', 'ControlFlow': 'Continue'}[head], [acc])


@native_first(ITER_RECV + r'try_for_each(::<.*>)?$', 'Iterator::try_for_each')
def i_try_for_each(ex, callee, a, env):
    from .engine import UNIT
    last = None
    while True:
        x = pull(ex, a[0])
        if x is END:
            break
        r = ex.call_value(a[1], [x])
        go, _ = _try_parts(r)
        if not go:
            return r
        last = deref(r)
    if last is not None:
        return Adt(last.ty, last.variant, [UNIT])
    m = re.search(r'try_for_each::<.*,\s*(Result|Option|ControlFlow)<', callee)
    head = m.group(1) if m else 'Result'
    return Adt(head, {'Result': 'Ok', 'Option': 'Some', 'ControlFlow': 'Continue'}[head], [UNIT])
