"""Native observation for C14: does a one-interface crate with the given #[scpi(cmd = ..)] declarations compile?

Each declaration set becomes one module of a generated crate (own struct, own #[microscpi::interface] impl, optionally with the
ErrorCommands / StandardCommands built-ins); `cargo check --message-format=json` is run once and every error is mapped back to
the module whose lines it points into.  The macro under test is the real one of /repo."""
import json
import os
import shutil
import subprocess

from . import build


def _crate(sets):
    lines = ['#![allow(dead_code, unused)]']
    ranges = []
    for i, st in enumerate(sets):
        decls, attrs = (st, []) if isinstance(st, (list, tuple)) and (not st or isinstance(st[0], str)) else (st['decls'], st.get('attrs', []))
        start = len(lines) + 1
        lines.append(f'pub mod m{i} {{')
        lines.append('use microscpi::{self, Error, ErrorCommands, ErrorQueue, StandardCommands, StaticErrorQueue};')
        lines.append('pub struct D { pub errors: StaticErrorQueue<4>, pub hits: [u32; 8] }')
        if 'ErrorCommands' in attrs:
            lines.append('impl ErrorCommands for D { fn error_queue(&mut self) -> &mut impl ErrorQueue { &mut self.errors } }')
        else:
            lines.append('impl microscpi::ErrorHandler for D { fn handle_error(&mut self, _error: Error) {} }')
        if 'StandardCommands' in attrs:
            lines.append('impl StandardCommands for D {}')
        lines.append(f'#[microscpi::interface({", ".join(attrs)})]' if attrs else '#[microscpi::interface]')
        lines.append('impl D {')
        for k, d in enumerate(decls):
            lines.append(f'    #[scpi(cmd = "{d}")]')
            lines.append(f'    pub async fn h{k}(&mut self) -> Result<(), Error> {{ self.hits[{k}] += 1; Ok(()) }}')
        lines.append('}')
        lines.append('}')
        ranges.append((start, len(lines)))
    return '\n'.join(lines) + '\n', ranges


def compile_sets(sets, log=lambda *a: None):
    """-> list of (compiles: bool, first error message or None), one per declaration set"""
    if not sets:
        return []
    d = os.path.join(build.WORK, 'cdev')
    os.makedirs(os.path.join(d, 'src'), exist_ok=True)
    src, ranges = _crate(sets)
    with open(os.path.join(d, 'Cargo.toml'), 'w') as f:
        f.write('[package]\nname = "cdev"\nversion = "0.0.0"\nedition = "2021"\n\n[lib]\npath = "src/lib.rs"\n\n[dependencies]\n'
                f'microscpi = {{ path = "{os.path.join(build.REPO, "microscpi")}" }}\n\n[workspace]\n')
    lock = os.path.join(build.REPO, 'Cargo.lock')
    if os.path.exists(lock):
        shutil.copy(lock, os.path.join(d, 'Cargo.lock'))
    with open(os.path.join(d, 'src', 'lib.rs'), 'w') as f:
        f.write(src)
    env = dict(build.ENV)
    env['CARGO_TARGET_DIR'] = os.path.join(build.WORK, 'tgt-cdev')
    p = subprocess.run(['cargo', 'check', '--offline', '--lib', '--message-format=json', '-q'], cwd=d, env=env, stdout=subprocess.PIPE, stderr=subprocess.PIPE, text=True)
    errs = [None] * len(sets)
    other = []
    for line in p.stdout.splitlines():
        try:
            m = json.loads(line)
        except ValueError:
            continue
        if m.get('reason') != 'compiler-message' or m['message'].get('level') != 'error':
            continue
        msg = m['message']
        hit = False
        for sp in msg.get('spans', []):
            for i, (a, b) in enumerate(ranges):
                if a <= sp['line_start'] <= b:
                    hit = True
                    if errs[i] is None:
                        errs[i] = (msg.get('message', '') + ' ' + ' '.join(c.get('message', '') for c in msg.get('children', [])))[:300]
        if not hit and msg.get('spans'):
            other.append(msg.get('message'))
    if p.returncode != 0 and all(e is None for e in errs):
        raise build.BuildError('the probe crate failed to build for a reason outside the declaration sets: ' + (p.stderr[-1500:] or str(other)))
    if p.returncode == 0 and any(errs):
        raise build.BuildError('inconsistent cargo result for the probe crate')
    return [(e is None, e) for e in errs]


def run_sets(sets, spellings, log=lambda *a: None, salt=''):
    """for declaration sets that compile: build ONE binary with a module per set and send every reference spelling of every declaration
    through Interface::run; returns failures [{set, decl, spelling, hits, errors}] where not exactly the declared handler was invoked once.
    spellings[i][k] = list of header texts (with '?' for queries) of declaration k of set i"""
    if not sets:
        return []
    d = os.path.join(build.WORK, 'crun')
    os.makedirs(os.path.join(d, 'src'), exist_ok=True)
    lines = ['#![allow(dead_code, unused)]', f'// {salt}', 'use std::future::Future;', 'use std::task::{Context, Poll, Waker};', 'use microscpi::Interface;',
             'fn block_on<F: Future>(fut: F) -> F::Output { let mut fut = std::pin::pin!(fut); let mut cx = Context::from_waker(Waker::noop()); let mut n = 0u32;',
             '    loop { if let Poll::Ready(v) = fut.as_mut().poll(&mut cx) { return v; } n += 1; if n > 100000 { panic!("HANG"); } } }']
    for i, st in enumerate(sets):
        decls, attrs = st['decls'], st.get('attrs', [])
        lines.append(f'pub mod m{i} {{')
        lines.append('use microscpi::{self, Error, ErrorCommands, ErrorQueue, StandardCommands, StaticErrorQueue};')
        lines.append('pub struct D { pub errors: StaticErrorQueue<4>, pub hits: [u32; 8], pub nerr: u32 }')
        lines.append('impl D { pub fn new() -> Self { D { errors: StaticErrorQueue::new(), hits: [0; 8], nerr: 0 } } }')
        if 'ErrorCommands' in attrs:
            lines.append('impl ErrorCommands for D { fn error_queue(&mut self) -> &mut impl ErrorQueue { self.nerr += 1; &mut self.errors } }')
        else:
            lines.append('impl microscpi::ErrorHandler for D { fn handle_error(&mut self, _error: Error) { self.nerr += 1; } }')
        if 'StandardCommands' in attrs:
            lines.append('impl StandardCommands for D {}')
        lines.append(f'#[microscpi::interface({", ".join(attrs)})]' if attrs else '#[microscpi::interface]')
        lines.append('impl D {')
        for k, dc in enumerate(decls):
            lines.append(f'    #[scpi(cmd = "{dc}")]')
            lines.append(f'    pub async fn h{k}(&mut self) -> Result<(), Error> {{ self.hits[{k}] += 1; Ok(()) }}')
        lines.append('}')
        lines.append('}')
    # one function per set (a single main with thousands of blocks overflows its stack frame in a dev build)
    for i, st in enumerate(sets):
        lines.append(f'#[inline(never)] fn run_{i}(out: &mut heapless::Vec<u8, 64>) {{')
        for k, sps in enumerate(spellings[i]):
            for sp in sps:
                lit = json.dumps(sp + '\n')
                lines.append(f'    {{ let mut d = m{i}::D::new(); out.clear(); let rem = block_on(d.run({lit}.as_bytes(), out)).len();')
                lines.append(f'      let ok = d.hits.iter().sum::<u32>() == 1 && d.hits[{k}] == 1 && d.nerr == 0 && rem == 0;')
                lines.append(f'      if !ok {{ println!("{{{{\\"set\\": {i}, \\"decl\\": {k}, \\"spelling\\": {{:?}}, \\"hits\\": {{:?}}, \\"errors\\": {{}}, \\"rem\\": {{}}}}}}", {json.dumps(sp)}, d.hits, d.nerr, rem); }} }}')
        lines.append('}')
    lines.append('fn main() {')
    lines.append('    let mut out: heapless::Vec<u8, 64> = heapless::Vec::new();')
    for i in range(len(sets)):
        lines.append(f'    run_{i}(&mut out);')
    lines.append('    println!("DONE");')
    lines.append('}')
    with open(os.path.join(d, 'Cargo.toml'), 'w') as f:
        f.write('[package]\nname = "crun"\nversion = "0.0.0"\nedition = "2021"\n\n[[bin]]\nname = "crun"\npath = "src/main.rs"\n\n[dependencies]\n'
                f'microscpi = {{ path = "{os.path.join(build.REPO, "microscpi")}" }}\nheapless = "0.8.0"\n\n[profile.dev]\ndebug = false\n\n[workspace]\n')
    lock = os.path.join(build.WORK, 'vdev', 'Cargo.lock')
    if not os.path.exists(lock):
        lock = os.path.join(build.REPO, 'Cargo.lock')
    if os.path.exists(lock):
        shutil.copy(lock, os.path.join(d, 'Cargo.lock'))
    with open(os.path.join(d, 'src', 'main.rs'), 'w') as f:
        f.write('\n'.join(lines) + '\n')
    env = dict(build.ENV)
    env['CARGO_TARGET_DIR'] = os.path.join(build.WORK, 'tgt-cdev')
    p = subprocess.run(['cargo', 'run', '--offline', '-q', '--bin', 'crun'], cwd=d, env=env, stdout=subprocess.PIPE, stderr=subprocess.PIPE, text=True)
    if p.returncode != 0 or 'DONE' not in p.stdout:
        errs = [l for l in p.stderr.splitlines() if l.startswith('error')][:3]
        raise build.BuildError('the run-time probe crate failed to build or run: ' + ('; '.join(errs) or p.stderr[-800:]))
    out = []
    for line in p.stdout.splitlines():
        if line.startswith('{'):
            out.append(json.loads(line))
    return out
