"""Native observation for C14: does a one-interface crate with the given #[scpi(cmd = ..)] declarations compile?

Each declaration set becomes one module of a generated crate (own struct, own #[microscpi::interface] impl, optionally with the
ErrorCommands / StandardCommands built-ins); `cargo check --message-format=json` is run once and every error is mapped back to
the module whose lines it points into.  The macro under test is the real one of /repo."""
import json
import os
import shutil
import subprocess

from . import build


def _crate(sets):
    lines = ['#![allow(dead_code, unused)]']
    ranges = []
    for i, st in enumerate(sets):
        decls, attrs = (st, []) if isinstance(st, (list, tuple)) and (not st or isinstance(st[0], str)) else (st['decls'], st.get('attrs', []))
        start = len(lines) + 1
        lines.append(f'pub mod m{i} {{')
        lines.append('use microscpi::{self, Error, ErrorCommands, ErrorQueue, StandardCommands, StaticErrorQueue};')
        lines.append('pub struct D { pub errors: StaticErrorQueue<4>, pub hits: [u32; 8] }')
        if 'ErrorCommands' in attrs:
            lines.append('impl ErrorCommands for D { fn error_queue(&mut self) -> &mut impl ErrorQueue { &mut self.errors } }')
        else:
            lines.append('impl microscpi::ErrorHandler for D { fn handle_error(&mut self, _error: Error) {} }')
        if 'StandardCommands' in attrs:
            lines.append('impl StandardCommands for D {}')
        lines.append(f'#[microscpi::interface({", ".join(attrs)})]' if attrs else '#[microscpi::interface]')
        lines.append('impl D {')
        for k, d in enumerate(decls):
            lines.append(f'    #[scpi(cmd = "{d}")]')
            lines.append(f'    pub async fn h{k}(&mut self) -> Result<(), Error> {{ self.hits[{k}] += 1; Ok(()) }}')
        lines.append('}')
        lines.append('}')
        ranges.append((start, len(lines)))
    return '\n'.join(lines) + '\n', ranges


def compile_sets(sets, log=lambda *a: None):
    """-> list of (compiles: bool, first error message or None), one per declaration set"""
    if not sets:
        return []
    d = os.path.join(build.WORK, 'cdev')
    os.makedirs(os.path.join(d, 'src'), exist_ok=True)
    src, ranges = _crate(sets)
    with open(os.path.join(d, 'Cargo.toml'), 'w') as f:
        f.write('[package]\nname = "cdev"\nversion = "0.0.0"\nedition = "2021"\n\n[lib]\npath = "src/lib.rs"\n\n[dependencies]\n'
                f'microscpi = {{ path = "{os.path.join(build.REPO, "microscpi")}" }}\n\n[workspace]\n')
    lock = os.path.join(build.REPO, 'Cargo.lock')
    if os.path.exists(lock):
        shutil.copy(lock, os.path.join(d, 'Cargo.lock'))
    with open(os.path.join(d, 'src', 'lib.rs'), 'w') as f:
        f.write(src)
    env = dict(build.ENV)
    env['CARGO_TARGET_DIR'] = os.path.join(build.WORK, 'tgt-cdev')
    p = subprocess.run(['cargo', 'check', '--offline', '--lib', '--message-format=json', '-q'], cwd=d, env=env, stdout=subprocess.PIPE, stderr=subprocess.PIPE, text=True)
    errs = [None] * len(sets)
    other = []
    for line in p.stdout.splitlines():
        try:
            m = json.loads(line)
        except ValueError:
            continue
        if m.get('reason') != 'compiler-message' or m['message'].get('level') != 'error':
            continue
        msg = m['message']
        hit = False
        for sp in msg.get('spans', []):
            for i, (a, b) in enumerate(ranges):
                if a <= sp['line_start'] <= b:
                    hit = True
                    if errs[i] is None:
                        errs[i] = (msg.get('message', '') + ' ' + ' '.join(c.get('message', '') for c in msg.get('children', [])))[:300]
        if not hit and msg.get('spans'):
            other.append(msg.get('message'))
    if p.returncode != 0 and all(e is None for e in errs):
        raise build.BuildError('the probe crate failed to build for a reason outside the declaration sets: ' + (p.stderr[-1500:] or str(other)))
    if p.returncode == 0 and any(errs):
        raise build.BuildError('inconsistent cargo result for the probe crate')
    return [(e is None, e) for e in errs]
