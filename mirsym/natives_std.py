"""Models of the std / alloc functions used by the proc-macro crate's command expansion and tree insertion
(String, Vec, HashMap, Rc, a few str helpers).  Installed only in the world that executes microscpi-macros' MIR (C14);
the no_std library world must not know them (an allocation there is a C13 finding)."""
import re
import z3

from .engine import (Adt, Tup, Slice, Ref, HVec, Iter, Unsupported, Panic, Some, NONE, Ok, Err, UNIT, deref, is_sym, copy_val)
from . import natives as N
from .natives import as_slice, _eq, _all_eq, And, Or, Not, in_range, upper
from .iters import pull, END, to_iter, Adaptor

STD = []


def std_native(pattern, label):
    def deco(f):
        STD.append((re.compile(pattern), f, label))
        return f
    return deco


def install(ex):
    ex.natives = list(STD) + list(ex.natives)
    ex.native_cache = {}


def mk_string(items):
    h = HVec(10 ** 9, True)
    h.std = True
    h.items = list(items)
    return h


def mk_vec(items):
    h = HVec(10 ** 9)
    h.std = True
    h.items = list(items)
    return h


class HMap:
    __slots__ = ('pairs',)

    def __init__(s):
        s.pairs = []       # list of [key, value]


def key_eq(ex, a, b):
    a, b = deref(a), deref(b)
    if isinstance(a, (HVec, Slice)) and isinstance(b, (HVec, Slice)):
        x, y = as_slice(a), as_slice(b)
        if x.len != y.len:
            return False
        return ex.truth(_all_eq(x.items(), y.items()))
    if isinstance(a, int) and isinstance(b, int):
        return a == b
    return ex.truth(N.values_equal(ex, a, b))


# ---- str helpers
@std_native(r'^(core::)?str::<impl str>::strip_suffix$', 'str::strip_suffix')
def s_strip_suffix(ex, callee, a, env):
    sl = as_slice(a[0])
    pat = N._pattern_bytes(a[1])
    items = sl.items()
    if len(pat) > len(items) or not ex.truth(_all_eq(items[len(items) - len(pat):], pat)):
        return NONE()
    return Some(Slice(sl.buf, sl.start, sl.len - len(pat), True))


@std_native(r'^(core::)?str::<impl str>::strip_prefix$', 'str::strip_prefix')
def s_strip_prefix(ex, callee, a, env):
    sl = as_slice(a[0])
    pat = N._pattern_bytes(a[1])
    items = sl.items()
    if len(pat) > len(items) or not ex.truth(_all_eq(items[:len(pat)], pat)):
        return NONE()
    return Some(Slice(sl.buf, sl.start + len(pat), sl.len - len(pat), True))


@std_native(r'^(core::)?str::<impl str>::split$', 'str::split')
def s_split(ex, callee, a, env):
    sl = as_slice(a[0])
    pat = N._pattern_bytes(a[1])
    if len(pat) != 1:
        raise Unsupported('split on a multi-byte pattern')
    parts = []
    st = 0
    items = sl.items()
    for i, b in enumerate(items):
        if ex.truth(_eq(b, pat[0])):
            parts.append(Slice(sl.buf, sl.start + st, i - st, True))
            st = i + 1
    parts.append(Slice(sl.buf, sl.start + st, len(items) - st, True))
    it = Iter(Slice(parts, 0, len(parts)))
    it.by_value = True
    return it


@std_native(r'^(std|alloc)::str::<impl str>::(to_uppercase|to_ascii_uppercase)$', 'str::to_uppercase (ASCII)')
def s_to_upper(ex, callee, a, env):
    out = []
    for b in as_slice(a[0]).items():
        if not ex.truth(in_range(b, 0, 127)):
            raise Unsupported('to_uppercase of non-ASCII text')
        out.append(upper(b))
    return mk_string(out)


@std_native(r'^(core::)?char::methods::<impl char>::(is_lowercase|is_ascii_lowercase)$', 'char::is_lowercase (ASCII)')
def s_is_lower(ex, callee, a, env):
    c = deref(a[0])
    if not ex.truth(in_range(c, 0, 127) if not isinstance(c, int) else c < 128):
        raise Unsupported('is_lowercase of a non-ASCII char')
    return in_range(c, 97, 122)


@std_native(r'^(core::)?char::methods::<impl char>::(is_uppercase|is_ascii_uppercase)$', 'char::is_uppercase (ASCII)')
def s_is_upper(ex, callee, a, env):
    c = deref(a[0])
    if not ex.truth(in_range(c, 0, 127) if not isinstance(c, int) else c < 128):
        raise Unsupported('is_uppercase of a non-ASCII char')
    return in_range(c, 65, 90)


@std_native(r'as Iterator>::collect$', 'Iterator::collect')
def s_collect(ex, callee, a, env):
    m = re.search(r'collect::<(.*)>$', callee)
    target = m.group(1) if m else ''
    items = []
    while True:
        x = pull(ex, a[0])
        if x is END:
            break
        items.append(x)
    if target.startswith('String') or target.endswith('String'):
        out = []
        for c in items:
            c = deref(c)
            if isinstance(c, (Slice, HVec)):
                out.extend(as_slice(c).items())
            elif isinstance(c, int):
                out.extend(chr(c).encode('utf-8'))
            else:
                # symbolic char: ASCII only
                if not ex.truth(z3.ULT(c, 128)):
                    raise Unsupported('collecting a non-ASCII symbolic char')
                out.append(z3.Extract(7, 0, c) if c.size() > 8 else c)
        return mk_string(out)
    if target.startswith('Vec'):
        return mk_vec(items)
    raise Unsupported('collect into ' + target)


# ---- String
@std_native(r'^<(std::string::)?String as Clone>::clone$', 'String::clone')
def s_string_clone(ex, callee, a, env):
    return mk_string(deref(a[0]).items)


@std_native(r'^<(std::string::)?String as PartialEq>::(eq|ne)$', 'String ==')
def s_string_eq(ex, callee, a, env):
    x, y = as_slice(a[0]), as_slice(a[1])
    r = False if x.len != y.len else _all_eq(x.items(), y.items())
    return Not(r) if callee.endswith('ne') else r


@std_native(r'^<(std::string::)?String as From<&str>>::from$|^<str as ToString>::to_string$|^(std|alloc)::str::<impl str>::to_owned$|^<str as ToOwned>::to_owned$|^<&str as Into<String>>::into$', 'String::from')
def s_string_from(ex, callee, a, env):
    return mk_string(as_slice(a[0]).items())


@std_native(r'^<(std::string::)?String as (std::ops::)?Deref>::deref$|^(std::string::)?String::as_str$', 'String::deref')
def s_string_deref(ex, callee, a, env):
    v = deref(a[0])
    return Slice(v.items, 0, len(v.items), True)


# ---- Vec
@std_native(r'^(std::vec::)?Vec(::<.*>)?::new$', 'Vec::new')
def s_vec_new(ex, callee, a, env):
    return mk_vec([])


@std_native(r'^(std::vec::)?Vec(::<.*>)?::push$', 'Vec::push')
def s_vec_push(ex, callee, a, env):
    deref(a[0]).items.append(a[1])
    return UNIT


@std_native(r'^<(std::vec::)?Vec<.*> as Clone>::clone$', 'Vec::clone')
def s_vec_clone(ex, callee, a, env):
    v = deref(a[0])
    return mk_vec([clone_deep(x) for x in v.items])


def clone_deep(x):
    x = x if not isinstance(x, Ref) else x
    if isinstance(x, HVec):
        h = HVec(x.cap, x.is_str)
        h.std = x.std
        h.items = [clone_deep(i) for i in x.items]
        return h
    return copy_val(x)


@std_native(r'^<(std::vec::)?Vec<.*> as (std::ops::)?(Deref|DerefMut)>::(deref|deref_mut)$|^(std::vec::)?Vec(::<.*>)?::(as_slice|as_mut_slice)$', 'Vec::deref')
def s_vec_deref(ex, callee, a, env):
    v = deref(a[0])
    return Slice(v.items, 0, len(v.items))


@std_native(r'^(std::vec::)?Vec(::<.*>)?::len$', 'Vec::len')
def s_vec_len(ex, callee, a, env):
    return len(deref(a[0]).items)


@std_native(r'^(std::vec::)?Vec(::<.*>)?::is_empty$', 'Vec::is_empty')
def s_vec_is_empty(ex, callee, a, env):
    return len(deref(a[0]).items) == 0


@std_native(r'^(std::boxed::)?Box(::<.*>)?::new_uninit$', 'Box::new_uninit (vec! literal)')
def s_box_new_uninit(ex, callee, a, env):
    cell = [Adt('MaybeUninit', None, [None, Adt('ManuallyDrop', None, [Adt('MaybeDangling', None, [None])])])]
    return Adt('Box', None, [Adt('Unique', None, [Ref(cell, 0)])])


@std_native(r'^(std::boxed::)?box_assume_init_into_vec_unsafe$', 'vec! literal')
def s_box_into_vec(ex, callee, a, env):
    box = a[0]
    mu = deref(box.f[0].f[0])
    arr = mu.f[1].f[0].f[0]
    if not isinstance(arr, list):
        raise Unsupported('vec! literal shape')
    return mk_vec(arr)


# ---- Rc
@std_native(r'^(std::rc::)?Rc(::<.*>)?::new$', 'Rc::new')
def s_rc_new(ex, callee, a, env):
    return Adt('Rc', None, [Ref([a[0]], 0)])


@std_native(r'^<(std::rc::)?Rc<.*> as Clone>::clone$', 'Rc::clone')
def s_rc_clone(ex, callee, a, env):
    return deref(a[0])


@std_native(r'^<(std::rc::)?Rc<.*> as (std::ops::)?Deref>::deref$', 'Rc::deref')
def s_rc_deref(ex, callee, a, env):
    return deref(a[0]).f[0]


# ---- HashMap
@std_native(r'^<(std::collections::)?HashMap<.*> as From<\[.*\]>>::from$', 'HashMap::from(array)')
def s_hm_from(ex, callee, a, env):
    m = HMap()
    for t in a[0]:
        m.pairs.append([t.f[0], t.f[1]])
    return m


@std_native(r'^<(std::collections::)?HashMap<.*> as Default>::default$|^(std::collections::)?HashMap(::<.*>)?::new$', 'HashMap::new')
def s_hm_new(ex, callee, a, env):
    return HMap()


@std_native(r'^(std::collections::)?HashMap(::<.*>)?::len$', 'HashMap::len')
def s_hm_len(ex, callee, a, env):
    return len(deref(a[0]).pairs)


@std_native(r'^(std::collections::)?HashMap(::<.*>)?::(get_mut|get)$', 'HashMap::get')
def s_hm_get(ex, callee, a, env):
    m = deref(a[0])
    k = deref(a[1])
    for p in m.pairs:
        if key_eq(ex, p[0], k):
            return Some(Ref(p, 1))
    return NONE()


@std_native(r'^(std::collections::)?HashMap(::<.*>)?::insert$', 'HashMap::insert')
def s_hm_insert(ex, callee, a, env):
    m = deref(a[0])
    for p in m.pairs:
        if key_eq(ex, p[0], a[1]):
            old = p[1]
            p[1] = a[2]
            return Some(old)
    m.pairs.append([a[1], a[2]])
    return NONE()


@std_native(r'^(std::collections::)?HashMap(::<.*>)?::entry$', 'HashMap::entry')
def s_hm_entry(ex, callee, a, env):
    m = deref(a[0])
    for p in m.pairs:
        if key_eq(ex, p[0], a[1]):
            return Adt('Entry', 'Occupied', [Adt('OccupiedEntry', None, [Ref(p, 1)])])
    return Adt('Entry', 'Vacant', [Adt('VacantEntry', None, [m, a[1]])])


@std_native(r'OccupiedEntry(::<.*>)?::(get|get_mut|into_mut)$', 'OccupiedEntry::get')
def s_occ_get(ex, callee, a, env):
    return deref(a[0]).f[0]


@std_native(r'VacantEntry(::<.*>)?::insert$', 'VacantEntry::insert')
def s_vac_insert(ex, callee, a, env):
    e = deref(a[0])
    p = [e.f[1], a[1]]
    e.f[0].pairs.append(p)
    return Ref(p, 1)


@std_native(r'^<(std::collections::)?HashMap<.*> as IntoIterator>::into_iter$|^(std::collections::)?HashMap(::<.*>)?::(iter|into_iter)$', 'HashMap::iter')
def s_hm_iter(ex, callee, a, env):
    m = deref(a[0])
    items = [Tup([p[0], p[1]]) for p in m.pairs]
    it = Iter(Slice(items, 0, len(items)))
    it.by_value = True
    return it


# ---- iterator consumers missing from the core model
@std_native(r'as Iterator>::try_for_each$', 'Iterator::try_for_each')
def s_try_for_each(ex, callee, a, env):
    while True:
        x = pull(ex, a[0])
        if x is END:
            return Ok(UNIT)
        r = ex.call_value(a[1], [x])
        if isinstance(r, Adt) and r.ty == 'Result' and r.variant == 'Err':
            return r
        if isinstance(r, Adt) and r.ty == 'ControlFlow' and r.variant == 'Break':
            return r


@std_native(r'^<(std::vec::)?Vec<.*> as PartialEq(<.*>)?>::(eq|ne)$', 'Vec ==')
def s_vec_eq(ex, callee, a, env):
    from .natives import values_equal
    r = values_equal(ex, a[0], a[1])
    return Not(r) if callee.endswith('ne') else r


# ---- more Vec methods met in refactorings of the macro crate
@std_native(r'^(std::vec::)?Vec(::<.*>)?::with_capacity$', 'Vec::with_capacity')
def s_vec_with_capacity(ex, callee, a, env):
    return mk_vec([])


@std_native(r'^(std::vec::)?Vec(::<.*>)?::(reserve|reserve_exact|shrink_to_fit)$', 'Vec::reserve')
def s_vec_reserve(ex, callee, a, env):
    return UNIT


@std_native(r'^(std::vec::)?Vec(::<.*>)?::remove$', 'Vec::remove')
def s_vec_remove(ex, callee, a, env):
    v, i = deref(a[0]), a[1]
    if not isinstance(i, int):
        i = ex.concretize(i, 0, 64)
    if i >= len(v.items):
        raise Panic(f'removal index (is {i}) should be < len (is {len(v.items)})')
    return v.items.pop(i)


@std_native(r'^(std::vec::)?Vec(::<.*>)?::insert$', 'Vec::insert')
def s_vec_insert(ex, callee, a, env):
    v, i = deref(a[0]), a[1]
    if not isinstance(i, int):
        i = ex.concretize(i, 0, 64)
    if i > len(v.items):
        raise Panic('insertion index out of bounds')
    v.items.insert(i, a[2])
    return UNIT


@std_native(r'^(std::vec::)?Vec(::<.*>)?::(pop)$', 'Vec::pop')
def s_vec_pop(ex, callee, a, env):
    v = deref(a[0])
    return Some(v.items.pop()) if v.items else NONE()


@std_native(r'^(std::vec::)?Vec(::<.*>)?::(clear)$', 'Vec::clear')
def s_vec_clear(ex, callee, a, env):
    del deref(a[0]).items[:]
    return UNIT


@std_native(r'^(std::vec::)?Vec(::<.*>)?::(truncate)$', 'Vec::truncate')
def s_vec_truncate(ex, callee, a, env):
    v, n = deref(a[0]), a[1]
    if not isinstance(n, int):
        n = ex.concretize(n, 0, 64)
    del v.items[n:]
    return UNIT


@std_native(r'^(std::vec::)?Vec(::<.*>)?::(contains)$', 'Vec::contains')
def s_vec_contains(ex, callee, a, env):
    from .natives import values_equal
    v, x = deref(a[0]), a[1]
    return any(ex.truth(values_equal(ex, y, x)) for y in v.items)


@std_native(r'^<(std::vec::)?Vec<.*> as Extend<.*>>::extend(::<.*>)?$|^(std::vec::)?Vec(::<.*>)?::(extend_from_slice|append)$', 'Vec::extend')
def s_vec_extend(ex, callee, a, env):
    from . import iters
    v = deref(a[0])
    src = deref(a[1])
    if isinstance(src, HVec):
        items = list(src.items)
        if callee.endswith('append'):
            del src.items[:]
    elif isinstance(src, (Slice, list)):
        items = [clone_deep(x) for x in as_slice(src).items()]
    else:
        it = iters.as_iter(ex, a[1]) if hasattr(iters, 'as_iter') else a[1]
        items = []
        while True:
            x = iters.pull(ex, it)
            if x is iters.END:
                break
            items.append(x)
    v.items.extend(items)
    return UNIT
