"""The environment around the code under test: devices, handler stubs, writers, the scripted transport,
and the entry points parse / run / process.  Everything here is harness (nondeterministic stubs and
observers); none of it models microscpi code.
"""
import json
import os
import re
import z3

from . import mir
from .engine import (Env, Engine, Adt, Tup, Slice, Ref, HVec, Deque, Coroutine, NativeFuture, NativeObj, FloatVal, Opaque, Token,
                     UNIT, Panic, Unsupported, Some, NONE, Ok, Err, deref, is_sym, copy_val, FmtArguments)
from . import natives
from .natives import native, as_slice, block_on, render_arguments

HERE = os.path.dirname(os.path.abspath(__file__))


# ----------------------------------------------------------------------------- enums from the sources
def read_enums(src_dir):
    enums = {}
    for fn in sorted(os.listdir(src_dir)):
        if not fn.endswith('.rs'):
            continue
        txt = open(os.path.join(src_dir, fn), encoding='utf-8').read()
        txt = re.sub(r'//[^\n]*', '', txt)
        for m in re.finditer(r'\benum\s+(\w+)\s*(?:<[^>{]*>)?\s*\{', txt):
            name = m.group(1)
            i = m.end() - 1
            j = mir.find_matching(txt, i)
            body = txt[i + 1:j]
            variants = []
            for part in mir.split_top(body):
                part = re.sub(r'#\[[^\]]*\]', '', part).strip()
                mm = re.match(r'(\w+)', part)
                if mm:
                    variants.append(mm.group(1))
            if name not in enums:
                enums[name] = variants
    return enums


def load_devices():
    spec = json.load(open(os.path.join(HERE, '..', 'devices.json')))['devices']
    out = {}
    for name, d in spec.items():
        d = dict(d)
        if 'cmds_from' in d:
            d['cmds'] = spec[d['cmds_from']]['cmds']
        out[name] = d
    return out


# ----------------------------------------------------------------------------- harness objects
class Rec(NativeObj):
    rt = 'Rec'

    def __init__(s):
        s.events = []      # ('call', k, [args]) | ('err', Adt Error)
        s.script = {}      # call index -> ('ok', value) | ('custom', n, bytes) | ('unit', variant)
        s.calls = 0
        s.hpend = 0
        s.out_marks = []


class PassWriter(NativeObj):
    rt = 'PassWriter'

    def __init__(s):
        s.items = []
        s.ops = []


class ScriptAdapter(NativeObj):
    rt = 'ScriptAdapter'

    def __init__(s, data, chunks=None, tail=1, fault=None, pend=(), max_empty=0, fork_chunks=False, fault_err=None):
        s.data = data              # list of bytes (symbolic or concrete)
        s.pos = 0
        s.chunks = list(chunks) if chunks is not None else []
        s.ci = 0
        s.tail = tail
        s.calls = 0
        s.fault = fault            # adapter call index at which Err is returned
        s.fault_err = fault_err
        s.pend = list(pend)        # call indices that return Pending once first
        s.trace = []               # ('r', cap, n) | ('w', [bytes]) | ('f',) | ('r!', cap, e) ...
        s.out = []
        s.fork_chunks = fork_chunks
        s.max_empty = max_empty
        s.empties = 0
        s.chosen = []              # chunk sizes actually used


EOF_ERR = -1


def mk_error(variant, fields=()):
    return Adt('Error', variant, list(fields))


def mk_str(b):
    b = list(b)
    return Slice(b, 0, len(b), True)


def default_ret(ty, devs=None):
    """the same defaults as vsupport::FromRet::default_ret"""
    ty = ty.strip()
    if ty == '()':
        return UNIT
    ii = mir.int_info(ty)
    if ty == 'bool':
        return True
    if ii:
        return 7
    if ty in ('f32', 'f64'):
        import struct
        return FloatVal(struct.unpack('<I', struct.pack('<f', 1.5))[0] if ty == 'f32' else struct.unpack('<Q', struct.pack('<d', 1.5))[0], ty)
    if ty == '&str':
        return mk_str(b's')
    if ty.startswith('heapless::String<'):
        h = HVec(int(ty[17:-1]), True)
        h.items = list(b's')
        return h
    if ty == 'Arbitrary':
        return Adt('Arbitrary', None, [Slice(list(b'ab'), 0, 2)])
    if ty == 'Characters':
        return Adt('Characters', None, [mk_str(b'CH')])
    if ty == 'Error':
        return mk_error('SystemError')
    pt = mir.parse_type(ty)
    if pt[0] == 'tuple':
        return Tup([default_ret(mir.type_str(x)) for x in pt[1]])
    if pt[0] == '&' and pt[1][0][0] == 'slice':
        items = [default_ret(mir.type_str(pt[1][0][1][0]))]
        return Slice(items, 0, 1)
    if pt[0] == 'heapless::Vec':
        h = HVec(int(mir.type_str(pt[1][1])))
        h.items = [default_ret(mir.type_str(pt[1][0]))]
        return h
    raise Unsupported('default return value for ' + ty)


# ----------------------------------------------------------------------------- the world
CURRENT = None        # the World of this process (one per worker)


class World:
    def __init__(s, mir_micro, mir_vdev, repo_src):
        global CURRENT
        CURRENT = s
        s.enums = read_enums(repo_src)
        s.ex = Engine(s.enums)
        s.ex.std_world = 'std' in os.path.basename(mir_micro)      # MIR of the std-feature build: heap models allowed
        f1, a1 = mir.read_mir(mir_micro, 'microscpi')
        f2, a2 = mir.read_mir(mir_vdev, 'vdev')
        s.ex.load(f1, a1, 'microscpi')
        s.ex.load(f2, a2, 'vdev')
        natives.install(s.ex)
        s.devices = load_devices()
        s.ex.intercepts = [
            (re.compile(r'^m_\w+::<impl at [^>]*>::h(\d+)$'), s._handler),
            (re.compile(r'^m_\w+::<impl at [^>]*>::handle_error$'), s._handle_error),
            (re.compile(r'^m_\w+::<impl at [^>]*>::new$'), s._dev_new),
            (re.compile(r'^Interface::run(_from)?$'), s._maybe_abstract_run),
        ]
        s.abstract_run = None      # set by the C07(a)/C10 checks: stand-in for Interface::run
        s.ex.world = s
        s._names = {}
        s.error_numbers = None

    # ---- devices
    def new_device(s, name):
        d = s.devices[name]
        fields = [Rec()]
        if d.get('queue') is not None:
            fields.append(s.new_queue(d['queue']))
        return Adt(name, None, fields)

    def _queue_fn(s, method):
        ex = s.ex
        if ex.impl_index is None:
            ex.build_impl_index()
        for f in ex.impl_index.get(method, []):
            sig = f.ret if method == 'new' else (f.params[0][1] if f.params else '')
            if 'StaticErrorQueue' in sig and f.crate == 'microscpi':
                return f
        return None

    def new_queue(s, cap):
        """the queue is built by the real constructor (StaticErrorQueue::<N>::new from MIR), whatever its representation is"""
        f = s._queue_fn('new')
        if f is not None:
            try:
                return s.ex.call_fn(f, [], Env({'N': str(cap)}))
            except Unsupported:
                pass
        q = Adt('StaticErrorQueue', None, [Deque(cap)])
        return q

    def queue_items(s, dev):
        """stored errors, oldest first, without changing the device: directly for the Deque representation, otherwise by draining a copy
        through the real pop_error"""
        if len(dev.f) < 2:
            return None
        q = dev.f[1]
        if q.f and isinstance(q.f[0], Deque) and len(q.f) == 1:
            return list(q.f[0].items)
        pop = s._queue_fn('pop_error')
        if pop is None:
            raise Unsupported('error queue representation unknown and no pop_error in the dump')
        qc = copy_val(q)
        cap = s.devices.get(dev.ty, {}).get('queue')
        items = []
        for _ in range(64):
            r = s.ex.call_fn(pop, [Ref([qc], 0)], Env({'N': str(cap)}))
            if r.variant != 'Some':
                return items
            items.append(r.f[0])
        raise Unsupported('error queue does not drain')

    def _dev_new(s, ex, fn, args, env):
        raise Unsupported('device constructors are not executed')

    def _handler(s, ex, fn, args, env):
        k = int(re.search(r'::h(\d+)$', fn.name).group(1))
        dev = deref(args[0])
        rec = dev.f[0]
        decl = s.devices[dev.ty]['cmds'][k]
        # arguments are recorded by value at the time of the call (borrowed buffers may be reused afterwards)
        snap = []
        for a in args[1:]:
            v = deref(a)
            if isinstance(v, Slice):
                items = list(v.items())
                v = Slice(items, 0, len(items), v.is_str)
            snap.append(v)
        rec.events.append(('call', k, snap))
        idx = rec.calls
        rec.calls += 1
        sc = rec.script.get(idx)
        if callable(sc):
            sc = sc(ex, k, args[1:])
        if sc is None:
            res = Ok(default_ret(decl['ret']))
        elif sc[0] == 'ok':
            res = Ok(sc[1])
        elif sc[0] == 'custom':
            res = Err(mk_error('Custom', [sc[1], mk_str(sc[2])]))
        elif sc[0] == 'unit':
            res = Err(mk_error(sc[1]))
        else:
            raise Unsupported('script entry ' + repr(sc))
        if '{async fn body' in fn.ret:
            return NativeFuture(res, pend=rec.hpend)
        return res

    def _maybe_abstract_run(s, ex, fn, args, env):
        if s.abstract_run is None:
            return NotImplemented
        return s.abstract_run(ex, fn, args, env)

    def _handle_error(s, ex, fn, args, env):
        dev = deref(args[0])
        dev.f[0].events.append(('err', args[1]))
        return UNIT

    # ---- tree
    def root(s, devname):
        f = s.ex.lookup(f'm_{devname.lower()}::SCPI_NODE_0', 'vdev')
        if f is None:
            raise Unsupported('no root node for ' + devname)
        return s.ex.static_ref(f)

    def node_names(s, devname):
        """canonical names exactly as vreplay computes them: BFS from the root, children sorted by name,
        a node is named by the first path that reaches it"""
        if devname in s._names:
            return s._names[devname]
        root = deref(s.root(devname))
        names = {id(root): ''}
        nodes = {'': root}
        queue = [(root, '')]
        head = 0
        while head < len(queue):
            n, path = queue[head]
            head += 1
            ch = []
            for t in as_slice(n.f[0]).items():
                nm = bytes(as_slice(t.f[0]).items()).decode()
                ch.append((nm, deref(t.f[1])))
            ch.sort(key=lambda x: x[0].encode())
            for nm, c in ch:
                p = nm if not path else path + '/' + nm
                if id(c) not in names:
                    names[id(c)] = p
                    nodes[p] = c
                    queue.append((c, p))
        s._names[devname] = (names, nodes)
        return names, nodes

    def tree_json(s, devname):
        names, nodes = s.node_names(devname)
        items = []
        for p, n in nodes.items():
            ch = []
            for t in as_slice(n.f[0]).items():
                nm = bytes(as_slice(t.f[0]).items()).decode()
                ch.append([nm, names[id(deref(t.f[1]))]])
            ch.sort()
            items.append({'name': p, 'command': n.f[1].f[0] if n.f[1].variant == 'Some' else None,
                          'query': n.f[2].f[0] if n.f[2].variant == 'Some' else None, 'children': ch})
        items.sort(key=lambda x: json.dumps(x, sort_keys=True))
        return items

    def node_ref(s, devname, path):
        names, nodes = s.node_names(devname)
        n = nodes['/'.join(path) if isinstance(path, (list, tuple)) else path]
        return Ref([n], 0)

    # ---- error numbers (from the real `number()` MIR)
    def error_number(s, e):
        f = None
        for cand in s.ex.by_name:
            if cand.endswith('>::number') and 'error' in cand:
                f = s.ex.by_name[cand][0]
        return s.ex.call_fn(f, [Ref([e], 0)], None)

    def error_text(s, e):
        return s.ex.call_path('<error::Error as Into<&str>>::into', [copy_val(e)], None, 'microscpi')

    # ---- entries
    def parse(s, devname, start_path, buf):
        ex = s.ex
        root = s.root(devname)
        start = s.node_ref(devname, start_path) if start_path else root
        f = ex.lookup('parse', 'microscpi')
        return ex.call_fn(f, [root, start, Slice(buf, 0, len(buf))], None)

    def run(s, dev, buf, writer, max_polls=64):
        ex = s.ex
        f = ex.lookup('Interface::run', 'microscpi')
        env = Env({'Self': dev.ty})
        co = ex.call_fn(f, [Ref([dev], 0), Slice(buf, 0, len(buf)), Ref([writer], 0)], env)
        return block_on(ex, co, max_polls)

    def process(s, dev, n, adapter, max_polls=200):
        ex = s.ex
        f = ex.lookup('Interface::process', 'microscpi')
        env = Env({'Self': dev.ty, 'N': str(n), 'A': 'ScriptAdapter'})
        co = ex.call_fn(f, [Ref([dev], 0), Ref([adapter], 0)], env)
        return block_on(ex, co, max_polls)


# ----------------------------------------------------------------------------- native trait impls of harness objects
@native(r'as (response::|microscpi::|::microscpi::)?Write>::(write_bytes|write_char|write_str|write_fmt|flush)$', 'harness PassWriter')
def n_pass_write(ex, callee, a, env):
    w = deref(a[0])
    if not isinstance(w, PassWriter):
        raise Unsupported(f'Write method on {w!r}')
    m = callee.rsplit('::', 1)[1]
    if m == 'write_bytes' or m == 'write_str':
        sl = as_slice(a[1])
        w.items.extend(sl.items())
        w.ops.append(('b' if m == 'write_bytes' else 's', sl.len))
    elif m == 'write_char':
        c = a[1]
        if isinstance(c, int):
            w.items.append(c & 0xFF)     # `c as u8`, as the shipped writers do
        elif z3.is_bv(c) and c.size() > 8:
            w.items.append(z3.simplify(z3.Extract(7, 0, c)))
        else:
            w.items.append(c)
        w.ops.append(('c',))
    elif m == 'write_fmt':
        n0 = len(w.items)
        for piece in render_arguments(ex, a[1]):
            w.items.extend(piece)
        w.ops.append(('f', len(w.items) - n0))
    else:
        w.ops.append(('F',))
    return NativeFuture(Ok(UNIT))


def _ad_begin(ad):
    k = ad.calls
    ad.calls += 1
    pend = sum(1 for x in ad.pend if x == k)
    return k, pend


@native(r'as (interface::|microscpi::)?Adapter>::read$', 'harness Adapter::read')
def n_ad_read(ex, callee, a, env):
    ad, dst = deref(a[0]), as_slice(a[1])
    k, pend = _ad_begin(ad)
    if ad.fault is not None and ad.fault == k:
        ad.trace.append(('r!', dst.len, 'fault'))
        return NativeFuture(Err(ad.fault_err), pend=pend)
    remaining = len(ad.data) - ad.pos
    if remaining <= 0 and ad.ci >= len(ad.chunks):
        ad.trace.append(('r!', dst.len, 'eof'))
        return NativeFuture(Err(EOF_ERR), pend=pend)
    if ad.ci < len(ad.chunks):
        want = ad.chunks[ad.ci]
    elif ad.fork_chunks:
        hi = min(dst.len, remaining)
        lo = 0 if ad.empties < ad.max_empty else 1
        if hi < lo:
            # the destination is empty (buffer full): the contract n <= dst.len() forces 0
            want = 0
        else:
            want = ex.decide([(n, True) for n in range(lo, hi + 1)])
    else:
        want = ad.tail
    ad.ci += 1
    n = min(want, dst.len, remaining)
    if n == 0:
        ad.empties += 1
    for i in range(n):
        dst.buf[dst.start + i] = ad.data[ad.pos + i]
    ad.pos += n
    ad.chosen.append(n)
    ad.trace.append(('r', dst.len, n))
    return NativeFuture(Ok(n), pend=pend)


@native(r'as (interface::|microscpi::)?Adapter>::write$', 'harness Adapter::write')
def n_ad_write(ex, callee, a, env):
    ad, src = deref(a[0]), as_slice(a[1])
    k, pend = _ad_begin(ad)
    if ad.fault is not None and ad.fault == k:
        ad.trace.append(('w!', list(src.items()), 'fault'))
        return NativeFuture(Err(ad.fault_err), pend=pend)
    ad.out.extend(src.items())
    ad.trace.append(('w', list(src.items())))
    return NativeFuture(Ok(UNIT), pend=pend)


@native(r'as (interface::|microscpi::)?Adapter>::flush$', 'harness Adapter::flush')
def n_ad_flush(ex, callee, a, env):
    ad = deref(a[0])
    k, pend = _ad_begin(ad)
    if ad.fault is not None and ad.fault == k:
        ad.trace.append(('f!', 'fault'))
        return NativeFuture(Err(ad.fault_err), pend=pend)
    ad.trace.append(('f',))
    return NativeFuture(Ok(UNIT), pend=pend)
