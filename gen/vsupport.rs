// Support code shared by every generated device: recording of handler calls and
// reported errors, scripted handler results. Only the *native* replay binary
// executes these bodies; mirsym intercepts the handlers (`h<k>`), `handle_error`
// and the adapter by name and never looks inside.
use std::vec::Vec;
use std::string::String;
use std::sync::atomic::{AtomicUsize, Ordering};

/// Heap allocations made while library code (not the harness) is running: counted by the replay binary's
/// global allocator while `TRACK` is on; every harness routine switches it off for its own duration.
/// The flag is per thread: only the thread that runs the library code is counted (the main thread of the replay binary
/// waits on a channel meanwhile and may allocate).
pub struct ThreadFlag;
std::thread_local! { static TRACK_TL: core::cell::Cell<bool> = const { core::cell::Cell::new(false) }; }
impl ThreadFlag {
    pub fn load(&self, _: Ordering) -> bool { TRACK_TL.try_with(|c| c.get()).unwrap_or(false) }
    pub fn store(&self, v: bool, _: Ordering) { let _ = TRACK_TL.try_with(|c| c.set(v)); }
    pub fn swap(&self, v: bool, _: Ordering) -> bool { TRACK_TL.try_with(|c| c.replace(v)).unwrap_or(false) }
}
pub static TRACK: ThreadFlag = ThreadFlag;
pub static ALLOCS: AtomicUsize = AtomicUsize::new(0);

pub fn harness<R>(f: impl FnOnce() -> R) -> R {
    let prev = TRACK.swap(false, Ordering::SeqCst);
    let r = f();
    TRACK.store(prev, Ordering::SeqCst);
    r
}

#[derive(Clone, Debug, PartialEq)]
pub enum Arg {
    Int(i128),
    F32(u32),
    F64(u64),
    Bool(bool),
    Str(Vec<u8>),
    Bytes(Vec<u8>),
}

pub trait ToArg {
    fn to_arg(&self) -> Arg;
}
macro_rules! int_arg { ($($t:ty),*) => { $(impl ToArg for $t { fn to_arg(&self) -> Arg { Arg::Int(*self as i128) } })* } }
int_arg!(u8, i8, u16, i16, u32, i32, u64, i64, usize, isize);
impl ToArg for f32 { fn to_arg(&self) -> Arg { Arg::F32(self.to_bits()) } }
impl ToArg for f64 { fn to_arg(&self) -> Arg { Arg::F64(self.to_bits()) } }
impl ToArg for bool { fn to_arg(&self) -> Arg { Arg::Bool(*self) } }
impl ToArg for &str { fn to_arg(&self) -> Arg { Arg::Str(self.as_bytes().to_vec()) } }
impl ToArg for &[u8] { fn to_arg(&self) -> Arg { Arg::Bytes(self.to_vec()) } }

/// Scripted return value of a handler (concrete, as found by the solver).
#[derive(Clone, Debug)]
pub enum Ret {
    Unit,
    Int(i128),
    F32(u32),
    F64(u64),
    Bool(bool),
    Str(&'static str),
    Bytes(&'static [u8]),
    Tuple(Vec<Ret>),
    List(Vec<Ret>),
    ErrNum(i16),
}

#[derive(Clone, Debug)]
pub enum Outcome {
    Ok(Ret),
    /// Err(Error::Custom(n, text))
    Custom(i16, &'static str),
    /// Err(<unit variant with this number>)
    Unit(i16),
}

#[derive(Clone, Debug)]
pub enum Event {
    Call(usize, Vec<Arg>),
    Error(i16, String),
    /// number of response bytes present when the event was recorded is added by the driver
    Mark(usize),
}

#[derive(Default)]
pub struct Rec {
    pub events: Vec<Event>,
    /// outcome of the k-th handler invocation (k counts all handlers); default Ok(default value)
    pub script: Vec<Option<Outcome>>,
    pub calls: usize,
    /// how often each async handler returns Pending before Ready
    pub handler_pending: usize,
}

pub fn unit_error(n: i16) -> microscpi::Error {
    use microscpi::Error::*;
    // every unit variant the checks script; found by number
    for e in ALL_UNIT_ERRORS.iter() {
        if e.number() == n {
            return *e;
        }
    }
    microscpi::Error::Custom(n, "unit?")
}

pub static ALL_UNIT_ERRORS: &[microscpi::Error] = &[
    microscpi::Error::CommandError,
    microscpi::Error::InvalidCharacter,
    microscpi::Error::SyntaxError,
    microscpi::Error::InvalidSeparator,
    microscpi::Error::DataTypeError,
    microscpi::Error::ParameterNotAllowed,
    microscpi::Error::MissingParameter,
    microscpi::Error::UndefinedHeader,
    microscpi::Error::UnexpectedNumberOfParameters,
    microscpi::Error::NumericDataError,
    microscpi::Error::ExecutionError,
    microscpi::Error::IllegalParameterValue,
    microscpi::Error::DataOutOfRange,
    microscpi::Error::TooMuchData,
    microscpi::Error::HardwareError,
    microscpi::Error::SystemError,
    microscpi::Error::QueueOverflow,
    microscpi::Error::QueryError,
];

pub trait FromRet: Sized {
    fn from_ret(r: &Ret) -> Self;
    fn default_ret() -> Self;
}
impl FromRet for () {
    fn from_ret(_r: &Ret) -> Self {}
    fn default_ret() -> Self {}
}
macro_rules! int_ret { ($($t:ty),*) => { $(impl FromRet for $t {
    fn from_ret(r: &Ret) -> Self { match r { Ret::Int(v) => *v as $t, _ => panic!("script type mismatch: int") } }
    fn default_ret() -> Self { 7 as $t }
})* } }
int_ret!(u8, i8, u16, i16, u32, i32, u64, i64, usize, isize);
impl FromRet for f32 {
    fn from_ret(r: &Ret) -> Self { match r { Ret::F32(b) => f32::from_bits(*b), _ => panic!("script type mismatch: f32") } }
    fn default_ret() -> Self { 1.5 }
}
impl FromRet for f64 {
    fn from_ret(r: &Ret) -> Self { match r { Ret::F64(b) => f64::from_bits(*b), _ => panic!("script type mismatch: f64") } }
    fn default_ret() -> Self { 1.5 }
}
impl FromRet for bool {
    fn from_ret(r: &Ret) -> Self { match r { Ret::Bool(b) => *b, _ => panic!("script type mismatch: bool") } }
    fn default_ret() -> Self { true }
}
impl FromRet for &'static str {
    fn from_ret(r: &Ret) -> Self { match r { Ret::Str(s) => s, _ => panic!("script type mismatch: str") } }
    fn default_ret() -> Self { "s" }
}
impl<const N: usize> FromRet for heapless::String<N> {
    fn from_ret(r: &Ret) -> Self {
        match r {
            Ret::Str(s) => { let mut h = heapless::String::new(); h.push_str(s).unwrap(); h }
            _ => panic!("script type mismatch: hstring"),
        }
    }
    fn default_ret() -> Self { let mut h = heapless::String::new(); h.push_str("s").unwrap(); h }
}
impl FromRet for microscpi::Arbitrary<'static> {
    fn from_ret(r: &Ret) -> Self { match r { Ret::Bytes(b) => microscpi::Arbitrary(b), _ => panic!("script type mismatch: arbitrary") } }
    fn default_ret() -> Self { microscpi::Arbitrary(b"ab") }
}
impl FromRet for microscpi::Characters<'static> {
    fn from_ret(r: &Ret) -> Self { match r { Ret::Str(s) => microscpi::Characters(s), _ => panic!("script type mismatch: characters") } }
    fn default_ret() -> Self { microscpi::Characters("CH") }
}
impl FromRet for microscpi::Error {
    fn from_ret(r: &Ret) -> Self { match r { Ret::ErrNum(n) => unit_error(*n), _ => panic!("script type mismatch: error") } }
    fn default_ret() -> Self { microscpi::Error::SystemError }
}
impl<T: FromRet + 'static> FromRet for &'static [T] {
    fn from_ret(r: &Ret) -> Self {
        match r {
            Ret::List(v) => { let items: Vec<T> = v.iter().map(T::from_ret).collect(); Vec::leak(items) }
            Ret::Bytes(b) => { let items: Vec<T> = b.iter().map(|x| T::from_ret(&Ret::Int(*x as i128))).collect(); Vec::leak(items) }
            _ => panic!("script type mismatch: list"),
        }
    }
    fn default_ret() -> Self { Vec::leak(std::vec![T::default_ret()]) }
}
impl<T: FromRet, const N: usize> FromRet for heapless::Vec<T, N> {
    fn from_ret(r: &Ret) -> Self {
        match r {
            Ret::List(v) => { let mut h = heapless::Vec::new(); for x in v { let _ = h.push(T::from_ret(x)); } h }
            _ => panic!("script type mismatch: hvec"),
        }
    }
    fn default_ret() -> Self { let mut h = heapless::Vec::new(); let _ = h.push(T::default_ret()); h }
}
impl<A: FromRet, B: FromRet> FromRet for (A, B) {
    fn from_ret(r: &Ret) -> Self { match r { Ret::Tuple(v) => (A::from_ret(&v[0]), B::from_ret(&v[1])), _ => panic!("script type mismatch: tuple2") } }
    fn default_ret() -> Self { (A::default_ret(), B::default_ret()) }
}
impl<A: FromRet, B: FromRet, C: FromRet> FromRet for (A, B, C) {
    fn from_ret(r: &Ret) -> Self { match r { Ret::Tuple(v) => (A::from_ret(&v[0]), B::from_ret(&v[1]), C::from_ret(&v[2])), _ => panic!("script type mismatch: tuple3") } }
    fn default_ret() -> Self { (A::default_ret(), B::default_ret(), C::default_ret()) }
}
impl<A: FromRet, B: FromRet, C: FromRet, D: FromRet> FromRet for (A, B, C, D) {
    fn from_ret(r: &Ret) -> Self { match r { Ret::Tuple(v) => (A::from_ret(&v[0]), B::from_ret(&v[1]), C::from_ret(&v[2]), D::from_ret(&v[3])), _ => panic!("script type mismatch: tuple4") } }
    fn default_ret() -> Self { (A::default_ret(), B::default_ret(), C::default_ret(), D::default_ret()) }
}

impl Rec {
    /// Called by every generated handler: records the call, answers from the script.
    pub fn hit<T: FromRet>(&mut self, id: usize, args: Vec<Arg>) -> Result<T, microscpi::Error> {
        harness(|| self.hit_inner(id, args))
    }

    fn hit_inner<T: FromRet>(&mut self, id: usize, args: Vec<Arg>) -> Result<T, microscpi::Error> {
        self.events.push(Event::Call(id, args));
        let k = self.calls;
        self.calls += 1;
        match self.script.get(k).cloned().flatten() {
            None => Ok(T::default_ret()),
            Some(Outcome::Ok(r)) => Ok(T::from_ret(&r)),
            Some(Outcome::Custom(n, s)) => Err(microscpi::Error::Custom(n, s)),
            Some(Outcome::Unit(n)) => Err(unit_error(n)),
        }
    }

    pub fn error(&mut self, e: microscpi::Error) {
        harness(|| {
            let text: &str = e.into();
            self.events.push(Event::Error(e.number(), String::from(text)));
        })
    }
}

/// A future that returns Pending `n` times (waking itself) before completing.
pub struct YieldN(pub usize);
impl core::future::Future for YieldN {
    type Output = ();
    fn poll(mut self: core::pin::Pin<&mut Self>, cx: &mut core::task::Context<'_>) -> core::task::Poll<()> {
        if self.0 == 0 {
            core::task::Poll::Ready(())
        } else {
            self.0 -= 1;
            cx.waker().wake_by_ref();
            core::task::Poll::Pending
        }
    }
}
