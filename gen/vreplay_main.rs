#![allow(unused, clippy::all)]
use std::collections::HashMap;
use std::future::Future;
use std::io::Read;
use std::pin::Pin;
use std::sync::mpsc;
use std::task::{Context, Poll, RawWaker, RawWakerVTable, Waker};
use std::time::Duration;

use microscpi::parser::{self, ParseError};
use microscpi::{Adapter, Interface, Node, Value};
use vdev::vsupport::{harness, Arg, Event, Outcome as Scripted, Rec, Ret, ALLOCS, TRACK};
use std::sync::atomic::Ordering;

// counts heap allocations made while TRACK is on (library code under test; harness code switches it off)
struct Counting;
unsafe impl std::alloc::GlobalAlloc for Counting {
    unsafe fn alloc(&self, l: std::alloc::Layout) -> *mut u8 {
        if TRACK.load(Ordering::Relaxed) { ALLOCS.fetch_add(1, Ordering::Relaxed); }
        std::alloc::System.alloc(l)
    }
    unsafe fn dealloc(&self, p: *mut u8, l: std::alloc::Layout) { std::alloc::System.dealloc(p, l) }
    unsafe fn realloc(&self, p: *mut u8, l: std::alloc::Layout, n: usize) -> *mut u8 {
        if TRACK.load(Ordering::Relaxed) { ALLOCS.fetch_add(1, Ordering::Relaxed); }
        std::alloc::System.realloc(p, l, n)
    }
}
#[global_allocator]
static GLOBAL: Counting = Counting;

// ------------------------------------------------------------------ case format
#[derive(Default, Clone, Debug)]
pub struct Case {
    id: String,
    entry: String,
    device: String,
    input: Vec<u8>,
    start: Vec<String>,
    cap: Option<usize>,
    n: usize,
    chunks: Vec<usize>,
    pend: Vec<usize>,
    hpend: usize,
    fault: Option<(usize, i32)>,
    script: Vec<Option<Scripted>>,
    tail_chunk: usize,
}

fn unhex(s: &str) -> Vec<u8> {
    let b = s.as_bytes();
    (0..b.len() / 2)
        .map(|i| u8::from_str_radix(std::str::from_utf8(&b[2 * i..2 * i + 2]).unwrap(), 16).unwrap())
        .collect()
}
fn hex(b: &[u8]) -> String {
    b.iter().map(|x| format!("{:02x}", x)).collect()
}
fn leak_str(b: Vec<u8>) -> &'static str {
    Box::leak(String::from_utf8(b).expect("script string must be UTF-8").into_boxed_str())
}

fn split_top(s: &str) -> Vec<String> {
    let mut out = Vec::new();
    let mut depth = 0;
    let mut cur = String::new();
    for c in s.chars() {
        match c {
            '[' => { depth += 1; cur.push(c); }
            ']' => { depth -= 1; cur.push(c); }
            ';' if depth == 0 => { out.push(cur.clone()); cur.clear(); }
            _ => cur.push(c),
        }
    }
    if !cur.is_empty() { out.push(cur); }
    out
}

fn parse_ret(s: &str) -> Ret {
    if s == "unit" { return Ret::Unit; }
    let (k, v) = s.split_once(':').expect("ret syntax");
    match k {
        "int" => Ret::Int(v.parse().unwrap()),
        "f32" => Ret::F32(v.parse().unwrap()),
        "f64" => Ret::F64(v.parse().unwrap()),
        "bool" => Ret::Bool(v == "1"),
        "str" => Ret::Str(leak_str(unhex(v))),
        "bytes" => Ret::Bytes(Vec::leak(unhex(v))),
        "err" => Ret::ErrNum(v.parse().unwrap()),
        "tuple" => Ret::Tuple(split_top(&v[1..v.len() - 1]).iter().map(|x| parse_ret(x)).collect()),
        "list" => Ret::List(split_top(&v[1..v.len() - 1]).iter().map(|x| parse_ret(x)).collect()),
        _ => panic!("ret kind {}", k),
    }
}

fn parse_cases(text: &str) -> Vec<Case> {
    let mut cases = Vec::new();
    let mut c = Case::default();
    c.tail_chunk = 1;
    for line in text.lines() {
        let line = line.trim();
        if line.is_empty() || line.starts_with('#') { continue; }
        let mut it = line.splitn(2, ' ');
        let key = it.next().unwrap();
        let val = it.next().unwrap_or("").trim();
        match key {
            "case" => c.id = val.to_string(),
            "entry" => c.entry = val.to_string(),
            "device" => c.device = val.to_string(),
            "input" => c.input = unhex(val),
            "start" => c.start = val.split(',').filter(|x| !x.is_empty()).map(|x| x.to_string()).collect(),
            "cap" => c.cap = if val == "none" { None } else if val == "std" { Some(999_999) } else { Some(val.parse().unwrap()) },
            "n" => c.n = val.parse().unwrap(),
            "chunks" => c.chunks = val.split(',').filter(|x| !x.is_empty()).map(|x| x.parse().unwrap()).collect(),
            "tailchunk" => c.tail_chunk = val.parse().unwrap(),
            "pend" => c.pend = val.split(',').filter(|x| !x.is_empty()).map(|x| x.parse().unwrap()).collect(),
            "hpend" => c.hpend = val.parse().unwrap(),
            "fault" => { let v: Vec<&str> = val.split(' ').collect(); c.fault = Some((v[0].parse().unwrap(), v[1].parse().unwrap())); }
            "script" => {
                let v: Vec<&str> = val.splitn(3, ' ').collect();
                let k: usize = v[0].parse().unwrap();
                while c.script.len() <= k { c.script.push(None); }
                c.script[k] = Some(match v[1] {
                    "ok" => Scripted::Ok(parse_ret(v[2])),
                    "custom" => { let w: Vec<&str> = v[2].splitn(2, ' ').collect(); Scripted::Custom(w[0].parse().unwrap(), leak_str(unhex(w.get(1).unwrap_or(&"")))) }
                    "unit" => Scripted::Unit(v[2].parse().unwrap()),
                    _ => panic!("script kind"),
                });
            }
            "end" => { cases.push(c.clone()); c = Case::default(); c.tail_chunk = 1; c.cap = None; }
            _ => panic!("unknown key {}", key),
        }
    }
    cases
}

// ------------------------------------------------------------------ outcome
#[derive(Default, Debug)]
pub struct Outcome {
    events: Vec<Event>,
    out: Vec<u8>,
    wops: Vec<String>,
    rem: Option<usize>,
    queue: Option<Vec<(i16, String)>>,
    trace: Vec<String>,
    result: Option<String>,
    parse: Option<String>,
    tree: Option<String>,
    unsupported: Option<String>,
    polls: usize,
    allocs: Option<usize>,
}
impl Outcome {
    fn unsupported(what: &str) -> Outcome { let mut o = Outcome::default(); o.unsupported = Some(what.to_string()); o }
}

fn jstr(s: &str) -> String {
    let mut o = String::from("\"");
    for c in s.chars() {
        match c {
            '"' => o.push_str("\\\""),
            '\\' => o.push_str("\\\\"),
            '\n' => o.push_str("\\n"),
            c if (c as u32) < 32 => o.push_str(&format!("\\u{:04x}", c as u32)),
            c => o.push(c),
        }
    }
    o.push('"');
    o
}

fn arg_json(a: &Arg) -> String {
    match a {
        Arg::Int(v) => format!("[\"int\",\"{}\"]", v),
        Arg::F32(b) => format!("[\"f32\",\"{}\"]", b),
        Arg::F64(b) => format!("[\"f64\",\"{}\"]", b),
        Arg::Bool(b) => format!("[\"bool\",\"{}\"]", if *b { 1 } else { 0 }),
        Arg::Str(s) => format!("[\"str\",\"{}\"]", hex(s)),
        Arg::Bytes(s) => format!("[\"bytes\",\"{}\"]", hex(s)),
    }
}

fn outcome_json(id: &str, panic: Option<String>, o: &Outcome) -> String {
    let mut s = String::new();
    s.push_str(&format!("{{\"id\":{},\"panic\":{}", jstr(id), match &panic { Some(p) => jstr(p), None => "null".into() }));
    let ev: Vec<String> = o.events.iter().map(|e| match e {
        Event::Call(id, args) => format!("[\"call\",{},[{}]]", id, args.iter().map(arg_json).collect::<Vec<_>>().join(",")),
        Event::Error(n, t) => format!("[\"err\",{},{}]", n, jstr(t)),
        Event::Mark(n) => format!("[\"mark\",{}]", n),
    }).collect();
    s.push_str(&format!(",\"events\":[{}]", ev.join(",")));
    s.push_str(&format!(",\"out\":\"{}\"", hex(&o.out)));
    s.push_str(&format!(",\"wops\":[{}]", o.wops.iter().map(|x| jstr(x)).collect::<Vec<_>>().join(",")));
    if let Some(r) = o.rem { s.push_str(&format!(",\"rem\":{}", r)); }
    if let Some(q) = &o.queue { s.push_str(&format!(",\"queue\":[{}]", q.iter().map(|(n, t)| format!("[{},{}]", n, jstr(t))).collect::<Vec<_>>().join(","))); }
    s.push_str(&format!(",\"trace\":[{}]", o.trace.iter().map(|x| jstr(x)).collect::<Vec<_>>().join(",")));
    if let Some(r) = &o.result { s.push_str(&format!(",\"result\":{}", jstr(r))); }
    if let Some(r) = &o.parse { s.push_str(&format!(",\"parse\":{}", r)); }
    if let Some(r) = &o.tree { s.push_str(&format!(",\"tree\":{}", r)); }
    if let Some(r) = &o.unsupported { s.push_str(&format!(",\"unsupported\":{}", jstr(r))); }
    if let Some(a) = o.allocs { s.push_str(&format!(",\"allocs\":{}", a)); }
    s.push_str(&format!(",\"polls\":{}}}", o.polls));
    s
}

// ------------------------------------------------------------------ executor
fn noop_waker() -> Waker {
    fn clone(_: *const ()) -> RawWaker { RawWaker::new(std::ptr::null(), &VTABLE) }
    fn noop(_: *const ()) {}
    static VTABLE: RawWakerVTable = RawWakerVTable::new(clone, noop, noop, noop);
    unsafe { Waker::from_raw(RawWaker::new(std::ptr::null(), &VTABLE)) }
}

/// Polls to completion; panics ("hang") after too many polls.
fn block_on<F: Future>(fut: F, polls: &mut usize) -> F::Output {
    let mut fut = std::pin::pin!(fut);
    let w = noop_waker();
    let mut cx = Context::from_waker(&w);
    loop {
        *polls += 1;
        if let Poll::Ready(v) = fut.as_mut().poll(&mut cx) { return v; }
        if *polls > 100_000 { panic!("HANG: future still pending after 100000 polls"); }
    }
}

pub trait HasRec {
    fn rec(&mut self) -> &mut Rec;
    fn drain_queue(&mut self) -> Option<Vec<(i16, String)>> { None }
}

// ------------------------------------------------------------------ tree naming
fn node_names(root: &'static Node) -> HashMap<*const Node, String> {
    let mut names: HashMap<*const Node, String> = HashMap::new();
    let mut queue: Vec<(&'static Node, String)> = vec![(root, String::new())];
    names.insert(root as *const Node, String::new());
    let mut head = 0;
    while head < queue.len() {
        let (n, path) = queue[head].clone();
        head += 1;
        let mut ch: Vec<(&'static str, &'static Node)> = n.children.iter().cloned().collect();
        ch.sort_by(|a, b| a.0.cmp(b.0));
        for (name, c) in ch {
            let p = if path.is_empty() { name.to_string() } else { format!("{}/{}", path, name) };
            if !names.contains_key(&(c as *const Node)) {
                names.insert(c as *const Node, p.clone());
                queue.push((c, p));
            }
        }
    }
    names
}

fn do_tree<D: Interface + HasRec>(dev: D, _case: &Case) -> Outcome {
    let root = dev.root_node();
    let names = node_names(root);
    // every node: canonical name, command, query, children (name -> canonical child)
    let mut items: Vec<String> = Vec::new();
    let mut seen: Vec<*const Node> = Vec::new();
    let mut stack = vec![root];
    while let Some(n) = stack.pop() {
        if seen.contains(&(n as *const Node)) { continue; }
        seen.push(n as *const Node);
        let mut ch: Vec<String> = Vec::new();
        for (name, c) in n.children.iter() {
            ch.push(format!("[{},{}]", jstr(name), jstr(&names[&(*c as *const Node)])));
            stack.push(c);
        }
        ch.sort();
        items.push(format!("{{\"name\":{},\"command\":{},\"query\":{},\"children\":[{}]}}", jstr(&names[&(n as *const Node)]),
            n.command.map(|x| x.to_string()).unwrap_or("null".into()), n.query.map(|x| x.to_string()).unwrap_or("null".into()), ch.join(",")));
    }
    items.sort();
    let mut o = Outcome::default();
    o.tree = Some(format!("[{}]", items.join(",")));
    o
}

fn value_json(v: &Value) -> String {
    match v {
        Value::String(s) => format!("[\"String\",\"{}\"]", hex(s.as_bytes())),
        Value::Characters(s) => format!("[\"Characters\",\"{}\"]", hex(s.as_bytes())),
        Value::Decimal(s) => format!("[\"Decimal\",\"{}\"]", hex(s.as_bytes())),
        Value::Hexadecimal(s) => format!("[\"Hexadecimal\",\"{}\"]", hex(s.as_bytes())),
        Value::Binary(s) => format!("[\"Binary\",\"{}\"]", hex(s.as_bytes())),
        Value::Octal(s) => format!("[\"Octal\",\"{}\"]", hex(s.as_bytes())),
        Value::Arbitrary(s) => format!("[\"Arbitrary\",\"{}\"]", hex(s)),
    }
}

fn do_parse<D: Interface + HasRec>(dev: D, case: &Case) -> Outcome {
    let root = dev.root_node();
    let names = node_names(root);
    let mut start = root;
    for s in &case.start {
        start = start.children.iter().find(|(n, _)| n == s).expect("start path").1;
    }
    let input: &'static [u8] = Vec::leak(case.input.clone());
    let r = parser::parse(root, start, input);
    let mut o = Outcome::default();
    o.parse = Some(match r {
        Ok((rest, None)) => format!("{{\"ok\":{{\"consumed\":{},\"call\":null}}}}", input.len() - rest.len()),
        Ok((rest, Some(call))) => {
            let suffix_ok = rest.len() <= input.len() && std::ptr::eq(rest.as_ptr(), input[input.len() - rest.len()..].as_ptr());
            format!("{{\"ok\":{{\"consumed\":{},\"suffix\":{},\"call\":{{\"node\":{},\"header\":{},\"query\":{},\"terminated\":{},\"args\":[{}]}}}}}}",
                input.len() - rest.len(), suffix_ok,
                jstr(&names[&(call.node as *const Node)]),
                match call.header { Some(h) => jstr(&names[&(h as *const Node)]), None => "null".into() },
                call.query, call.terminated,
                call.args.iter().map(value_json).collect::<Vec<_>>().join(","))
        }
        Err(ParseError::Incomplete) => "{\"err\":[\"Incomplete\"]}".to_string(),
        Err(ParseError::SoftError(None)) => "{\"err\":[\"SoftNone\"]}".to_string(),
        Err(ParseError::SoftError(Some(e))) => format!("{{\"err\":[\"Soft\",{}]}}", e.number()),
        Err(ParseError::FatalError(e)) => format!("{{\"err\":[\"Fatal\",{}]}}", e.number()),
    });
    o
}

// ------------------------------------------------------------------ writers
#[derive(Default)]
pub struct PassWriter { out: Vec<u8>, ops: Vec<String> }
impl microscpi::Write for PassWriter {
    async fn write_bytes(&mut self, bytes: &[u8]) -> Result<(), microscpi::Error> { harness(|| { self.out.extend_from_slice(bytes); self.ops.push(format!("b{}", bytes.len())); }); Ok(()) }
    async fn write_char(&mut self, c: char) -> Result<(), microscpi::Error> { harness(|| { self.out.push(c as u8); self.ops.push("c".into()); }); Ok(()) }
    async fn write_str(&mut self, s: &str) -> Result<(), microscpi::Error> { harness(|| { self.out.extend_from_slice(s.as_bytes()); self.ops.push(format!("s{}", s.len())); }); Ok(()) }
    async fn write_fmt(&mut self, fmt: core::fmt::Arguments<'_>) -> Result<(), microscpi::Error> { harness(|| { let s = format!("{}", fmt); self.out.extend_from_slice(s.as_bytes()); self.ops.push(format!("f{}", s.len())); }); Ok(()) }
    async fn flush(&mut self) -> Result<(), microscpi::Error> { harness(|| self.ops.push("F".into())); Ok(()) }
}
pub trait OutBytes { fn bytes(&self) -> Vec<u8>; fn ops(&self) -> Vec<String> { Vec::new() } }
impl OutBytes for PassWriter { fn bytes(&self) -> Vec<u8> { self.out.clone() } fn ops(&self) -> Vec<String> { self.ops.clone() } }
impl<const N: usize> OutBytes for heapless::Vec<u8, N> { fn bytes(&self) -> Vec<u8> { self.iter().cloned().collect() } }
#[cfg(feature = "stdw")]
impl OutBytes for std::vec::Vec<u8> { fn bytes(&self) -> Vec<u8> { self.clone() } }

fn do_run<D: Interface + HasRec, W: microscpi::Write + OutBytes>(mut dev: D, case: &Case, mut w: W) -> Outcome {
    dev.rec().script = case.script.clone();
    dev.rec().handler_pending = case.hpend;
    let input = case.input.clone();
    let mut o = Outcome::default();
    let mut polls = 0;
    ALLOCS.store(0, Ordering::SeqCst);
    let (rem_len, suffix_ok) = {
        TRACK.store(true, Ordering::SeqCst);
        let rem = block_on(dev.run(&input, &mut w), &mut polls);
        TRACK.store(false, Ordering::SeqCst);
        let ok = rem.len() <= input.len() && (rem.is_empty() || std::ptr::eq(rem.as_ptr(), input[input.len() - rem.len()..].as_ptr()));
        (rem.len(), ok)
    };
    o.polls = polls;
    o.allocs = Some(ALLOCS.load(Ordering::SeqCst));
    o.rem = Some(rem_len);
    if !suffix_ok { o.result = Some("NOT_A_SUFFIX".into()); }
    o.events = dev.rec().events.clone();
    o.out = w.bytes();
    o.wops = w.ops();
    o.queue = dev.drain_queue();
    o
}

// ------------------------------------------------------------------ adapter
pub struct ScriptAdapter {
    data: Vec<u8>, pos: usize, chunks: Vec<usize>, ci: usize, tail: usize,
    calls: usize, pend: Vec<usize>, fault: Option<(usize, i32)>,
    trace: Vec<String>, out: Vec<u8>,
}
struct AdFut<T> { pend: usize, val: Option<Result<T, i32>> }
impl<T: Unpin> Future for AdFut<T> {
    type Output = Result<T, i32>;
    fn poll(mut self: Pin<&mut Self>, cx: &mut Context<'_>) -> Poll<Self::Output> {
        if self.pend > 0 { self.pend -= 1; cx.waker().wake_by_ref(); return Poll::Pending; }
        Poll::Ready(self.val.take().unwrap())
    }
}
impl ScriptAdapter {
    fn begin(&mut self) -> (usize, Option<i32>) {
        let k = self.calls;
        self.calls += 1;
        let pend = self.pend.iter().filter(|x| **x == k).count();
        let fault = match self.fault { Some((i, e)) if i == k => Some(e), _ => None };
        (pend, fault)
    }
}
impl Adapter for ScriptAdapter {
    type Error = i32;
    fn read(&mut self, dst: &mut [u8]) -> impl Future<Output = Result<usize, i32>> {
        let prev = TRACK.swap(false, Ordering::SeqCst);
        let r = self.read_inner(dst);
        TRACK.store(prev, Ordering::SeqCst);
        r
    }
    fn write(&mut self, src: &[u8]) -> impl Future<Output = Result<(), i32>> {
        let prev = TRACK.swap(false, Ordering::SeqCst);
        let r = self.write_inner(src);
        TRACK.store(prev, Ordering::SeqCst);
        r
    }
    fn flush(&mut self) -> impl Future<Output = Result<(), i32>> {
        let prev = TRACK.swap(false, Ordering::SeqCst);
        let r = self.flush_inner();
        TRACK.store(prev, Ordering::SeqCst);
        r
    }
}
impl ScriptAdapter {
    fn read_inner(&mut self, dst: &mut [u8]) -> AdFut<usize> {
        let (pend, fault) = self.begin();
        let val = if let Some(e) = fault { self.trace.push(format!("r{}!{}", dst.len(), e)); Err(e) }
        else if self.pos >= self.data.len() && self.ci >= self.chunks.len() { self.trace.push(format!("r{}!eof", dst.len())); Err(-1) }
        else {
            let want = if self.ci < self.chunks.len() { self.chunks[self.ci] } else { self.tail };
            self.ci += 1;
            let n = want.min(dst.len()).min(self.data.len() - self.pos);
            dst[..n].copy_from_slice(&self.data[self.pos..self.pos + n]);
            self.pos += n;
            self.trace.push(format!("r{}={}", dst.len(), n));
            Ok(n)
        };
        AdFut { pend, val: Some(val) }
    }
    fn write_inner(&mut self, src: &[u8]) -> AdFut<()> {
        let (pend, fault) = self.begin();
        let val = if let Some(e) = fault { self.trace.push(format!("w{}!{}", hex(src), e)); Err(e) }
        else { self.out.extend_from_slice(src); self.trace.push(format!("w{}", hex(src))); Ok(()) };
        AdFut { pend, val: Some(val) }
    }
    fn flush_inner(&mut self) -> AdFut<()> {
        let (pend, fault) = self.begin();
        let val = if let Some(e) = fault { self.trace.push(format!("f!{}", e)); Err(e) } else { self.trace.push("f".into()); Ok(()) };
        AdFut { pend, val: Some(val) }
    }
}

fn do_process<D: Interface + HasRec, const N: usize>(mut dev: D, case: &Case) -> Outcome {
    dev.rec().script = case.script.clone();
    dev.rec().handler_pending = case.hpend;
    let mut ad = ScriptAdapter { data: case.input.clone(), pos: 0, chunks: case.chunks.clone(), ci: 0, tail: case.tail_chunk,
        calls: 0, pend: case.pend.clone(), fault: case.fault, trace: Vec::new(), out: Vec::new() };
    let mut o = Outcome::default();
    let mut polls = 0;
    ALLOCS.store(0, Ordering::SeqCst);
    TRACK.store(true, Ordering::SeqCst);
    let r = block_on(dev.process::<N, _>(&mut ad), &mut polls);
    TRACK.store(false, Ordering::SeqCst);
    o.allocs = Some(ALLOCS.load(Ordering::SeqCst));
    o.polls = polls;
    o.result = Some(match r { Ok(()) => "ok".to_string(), Err(e) => format!("err:{}", e) });
    o.events = dev.rec().events.clone();
    o.out = ad.out.clone();
    o.trace = ad.trace.clone();
    o.queue = dev.drain_queue();
    o
}

// ------------------------------------------------------------------ main
fn main() {
    let args: Vec<String> = std::env::args().collect();
    let mut text = String::new();
    if args.len() > 1 { text = std::fs::read_to_string(&args[1]).expect("case file"); }
    else { std::io::stdin().read_to_string(&mut text).unwrap(); }
    let cases = parse_cases(&text);
    std::panic::set_hook(Box::new(|_| {}));
    for case in cases {
        let (tx, rx) = mpsc::channel();
        let c2 = case.clone();
        std::thread::Builder::new().stack_size(64 << 20).spawn(move || {
            let r = std::panic::catch_unwind(|| dispatch(&c2));
            let line = match r {
                Ok(o) => outcome_json(&c2.id, None, &o),
                Err(p) => {
                    let msg = if let Some(s) = p.downcast_ref::<&str>() { s.to_string() } else if let Some(s) = p.downcast_ref::<String>() { s.clone() } else { "panic".to_string() };
                    outcome_json(&c2.id, Some(msg), &Outcome::default())
                }
            };
            let _ = tx.send(line);
        }).unwrap();
        match rx.recv_timeout(Duration::from_secs(10)) {
            Ok(line) => println!("{}", line),
            Err(_) => {
                println!("{{\"id\":{},\"panic\":\"HANG: no result within 10 s\",\"events\":[],\"out\":\"\",\"wops\":[],\"trace\":[],\"polls\":0,\"hang\":true}}", jstr(&case.id));
                // the worker cannot be stopped; remaining cases must be re-submitted by the caller
                std::process::exit(3);
            }
        }
    }
}
