#!/bin/bash
# tools/run_all.sh [tier]   run every registered check in /verif against /repo, one after the other; summary at the end
cd /verif
tier="${1:-quick}"
rc_all=0
for id in C01 C02 C03 C04 C05 C06 C07 C08 C09 C10 C11 C12 C13 C14; do
  t0=$(date +%s)
  ./check $id --tier $tier > work/last_$id.log 2>&1
  rc=$?
  t1=$(date +%s)
  echo "$id exit=$rc $((t1-t0))s $(grep -E 'held on|VIOLATION|INCONCLUSIVE|KNOWN' work/last_$id.log | head -2 | cut -c1-150)"
  [ $rc -ne 0 ] && rc_all=1
done
exit $rc_all
