#!/bin/bash
# sanity before committing: every module compiles, MANIFEST validates
cd /verif && python3-vt -m compileall -q mirsym gen tools >/dev/null || { echo "COMPILE ERROR"; exit 1; }
python3-vt - <<'PY' || exit 1
import json, jsonschema, importlib, sys
sys.path.insert(0, '/verif')
jsonschema.validate(json.load(open('/verif/MANIFEST.json')), json.load(open('/root/.vp/MANIFEST.schema.json')))
for i in range(1, 15):
    importlib.import_module(f'mirsym.props.c{i:02d}')
for m in ('parse_level','run_level','process_level','abstract_process','response_level','arg_level','header_level','queue_level', 'macro_level'):
    importlib.import_module('mirsym.checks.' + m)
print('precommit ok')
PY
