#!/bin/bash
# tools/verify_mutant_sh.sh <seeded dir name>  -- like verify_mutant.sh for seeded changes whose demonstration is a script
# (seeded/<name>/demo.sh <checkout> exits 0 iff the property holds on that checkout): fresh scratch worktree of /repo HEAD,
#   (1) patch applies, (2) demo passes without it, (3) unedited suite passes with it, (4) demo fails with it
set -u
name="$1"; src="/verif/seeded/$name"; wt="/tmp/vm_$name"
rm -rf "$wt"; git -C /repo worktree add -q --detach "$wt" HEAD || exit 9
export CARGO_NET_OFFLINE=true
res=""
( cd "$wt" && git apply --check "$src/patch.diff" ) && res="$res applies=yes" || res="$res applies=NO"
if DEMO_TMP="$wt/demo_tmp" sh "$src/demo.sh" "$wt" >/tmp/vm_$name.clean.log 2>&1; then res="$res demo_clean=pass"; else res="$res demo_clean=FAIL"; fi
( cd "$wt" && git apply "$src/patch.diff" )
if ( cd "$wt" && CARGO_TARGET_DIR="$wt/target" cargo test -q --workspace --no-fail-fast --offline ) >/tmp/vm_$name.suite.log 2>&1; then res="$res suite_with_change=pass"; else res="$res suite_with_change=FAIL"; fi
np=$(grep -E '^test result' /tmp/vm_$name.suite.log | awk '{s+=$4} END{print s}')
res="$res passed=$np"
if DEMO_TMP="$wt/demo_tmp" sh "$src/demo.sh" "$wt" >/tmp/vm_$name.mut.log 2>&1; then res="$res demo_with_change=PASS(bad)"; else res="$res demo_with_change=fail"; fi
echo "$name:$res"
cd /; git -C /repo worktree remove --force "$wt"
