#!/usr/bin/env python3
"""Regenerate MANIFEST.json from the table below (keeps it valid at all times)."""
import json, os
V = os.path.dirname(os.path.dirname(os.path.abspath(__file__)))
ids = [json.loads(l)['id'] for l in open(os.path.join(V, 'properties.jsonl'))]

MIRSYM = "symbolic execution of rustc MIR (regenerated from /repo on every run) + SMT (z3 QF_BV), bounded; counterexamples replayed on the real build"
TRUST = ("trusted: native models of core/heapless helpers listed in the evidence (validated on every run by differential concrete "
         "execution of ~400-1900 cases against the real build), reference oracles in mirsym/oracle.py, z3; ")

CHECKS = {
 'C02': dict(text="bounded: Interface::run executed symbolically from MIR (run -> parse -> execute -> macro-generated execute_command) on every message of 1..3 units over device T1 with every mnemonic letter symbolic, followed by a probe message, plus every message of 1..2 (3) units out of a 31-header library on device T3 (short/long forms, optional nodes, standard commands); handler log compared with an independent SCPI path resolver per leaf; the same rule through process::<16> on streams of 1..2 library messages (relative second message, message continued after a payload newline) in whole / byte-wise / one- and two-cut schedules",
             note=TRUST + "handlers are recording stubs returning Ok", design="DESIGN.md section 5 C02"),
 'C12': dict(text="bounded: parser::parse executed symbolically from MIR on every byte string (all 256 values per byte) up to the stated length, from the root and inner start nodes of two macro-built trees; obligations O1-O5 decided by z3 per leaf (O4 / O5 extended by a fixed completion family, also behind payload and length-field prefixes); nothing claimed beyond the length bound and that family",
             note=TRUST + "no stubs for parse", design="DESIGN.md section 5 C12"),
}
NA = {}
extra = {}
p = os.path.join(V, 'tools', 'manifest_extra.json')
if os.path.exists(p):
    extra = json.load(open(p))
CHECKS.update(extra.get('checks', {}))
NA.update(extra.get('na', {}))

m = {
 "version": 1,
 "setup_cmd": "cd /verif && mkdir -p work evidence replays && CARGO_NET_OFFLINE=true python3-vt -m mirsym.build --release --std --macros",
 "hooks": {"guard": "microscpi_verif", "enable": "none needed: MIR exposes private functions; the generated device crate and the Kani crate use the public API only",
           "baseline_off_cmd": "cd /repo && cargo test --workspace --no-fail-fast --offline", "source_commits": [], "add_only": True},
 "engines": [{"name": "mirsym", "path": "/verif/mirsym", "serves_properties": sorted(k for k, c in CHECKS.items() if c.get('engine', 'mirsym') == 'mirsym'),
              "kind_free_text": "symbolic executor for rustc MIR text with z3 deciding every branch; native replay binary built from the generated device crate"}],
 "checks": [],
 "not_applicable": [],
 "notes": "All claims are bounded (category model_checking); bounds, functions encoded, queries discharged, solver time and what lies outside the bounds are in each evidence file. Exit 2 / INCONCLUSIVE = engine limitation, never a pass.",
}
for i in ids:
    if i in CHECKS:
        c = CHECKS[i]
        m['checks'].append({"property_id": i, "quick_cmd": f"./check {i} --tier quick", "thorough_cmd": f"./check {i} --tier thorough",
                            "evidence_file": f"/verif/evidence/{i}.json", "replay_cmd_template": f"./check {i} --replay {{path}}", "engine": c.get('engine', 'mirsym'),
                            "level_claimed": {"category": "model_checking", "text": c['text'], "design_ref": c['design']},
                            "level_note": c['note'], "technique": c.get('technique', MIRSYM)})
    else:
        m['not_applicable'].append({"property_id": i, "reason": NA.get(i, "check under construction in this session (see DESIGN.md); not claimed yet")})
json.dump(m, open(os.path.join(V, 'MANIFEST.json'), 'w'), indent=1)
print('checks:', [c['property_id'] for c in m['checks']], 'n/a:', [c['property_id'] for c in m['not_applicable']])
