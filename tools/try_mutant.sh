#!/bin/bash
# tools/try_mutant.sh <seeded dir name> <check id>...   run checks against a seeded change WITHOUT touching /repo:
# a scratch clone of /repo HEAD + the patch, own work dir; evidence/replays of these runs go to the scratch work dir.
set -u
name="$1"; shift
patch="/verif/seeded/$name/patch.diff"
scr="/tmp/tm_$name"
rm -rf "$scr"; mkdir -p "$scr"
git -C /repo worktree add -q --detach "$scr/repo" HEAD || exit 9
( cd "$scr/repo" && git apply "$patch" ) || { echo "patch does not apply"; git -C /repo worktree remove --force "$scr/repo"; exit 9; }
export VERIF_REPO="$scr/repo" VERIF_WORK="$scr/work" VERIF_OUT="$scr/out"
# run the committed machinery from a snapshot, so that edits made in /verif meanwhile do not disturb the run
mkdir -p "$scr/verif" && git -C /verif archive HEAD | tar -x -C "$scr/verif"
cd "$scr/verif"
for id in "$@"; do
  echo "=== $id on $name"
  ./check "$id" --tier "${TIER:-quick}" > "$scr/$id.log" 2>&1
  rc=$?
  grep -E '^(VIOLATION|KNOWN-FINDING|INCONCLUSIVE)|held on everything' "$scr/$id.log" | cut -c1-400 | head -6
  grep -E -A1 '^VIOLATION' "$scr/$id.log" | grep -E '^    ' | cut -c1-300 | head -3
  echo "exit=$rc"
done
git -C /repo worktree remove --force "$scr/repo"
rm -rf "$scr/work" "$scr/verif"
