#!/bin/bash
# tools/verify_mutant.sh <ID>  -- independent confirmation of a sub-agent's seeded change in a fresh scratch worktree:
#   (1) patch applies to /repo HEAD, (2) unedited suite passes with it, (3) the demo fails with it, (4) the demo passes without it
set -u
id="$1"; src="${MUTROOT:-/tmp/mut}/$id/OUT"; wt="/tmp/vm_$id"
low=$(echo "$id" | tr A-Z a-z)
rm -rf "$wt"; git -C /repo worktree add -q --detach "$wt" HEAD || exit 9
export CARGO_TARGET_DIR="$wt/target" CARGO_NET_OFFLINE=true
cd "$wt"
res=""
git apply --check "$src/patch.diff" && res="$res applies=yes" || res="$res applies=NO"
# (4) demo on clean tree
cp "$src/demo_$low.rs" microscpi/tests/demo_$low.rs
if cargo test -q --offline -p microscpi --features std --test demo_$low >/tmp/vm_$id.clean.log 2>&1; then res="$res demo_clean=pass"; else res="$res demo_clean=FAIL"; fi
rm microscpi/tests/demo_$low.rs
git apply "$src/patch.diff"
# (2) suite with change (demo not present)
if cargo test -q --workspace --no-fail-fast --offline >/tmp/vm_$id.suite.log 2>&1; then res="$res suite_with_change=pass"; else res="$res suite_with_change=FAIL"; fi
np=$(grep -E '^test result' /tmp/vm_$id.suite.log | awk '{s+=$4} END{print s}')
res="$res passed=$np"
# (3) demo with change
cp "$src/demo_$low.rs" microscpi/tests/demo_$low.rs
if cargo test -q --offline -p microscpi --features std --test demo_$low >/tmp/vm_$id.mut.log 2>&1; then res="$res demo_with_change=PASS(bad)"; else res="$res demo_with_change=fail"; fi
echo "$id:$res"
cd /; git -C /repo worktree remove --force "$wt"
