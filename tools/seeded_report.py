#!/usr/bin/env python3
"""Collect the results of tools/try_mutant.sh runs (logs given on the command line, later logs win) into seeded/RESULTS.md"""
import json, os, re, sys
V = os.path.dirname(os.path.dirname(os.path.abspath(__file__)))
res = {}
first = {}
paths = sys.argv[1:]
if not paths:
    d = os.path.join(V, 'seeded', 'logs')
    paths = sorted((os.path.join(d, f) for f in os.listdir(d) if f.endswith('.log')), key=lambda x: int(re.search(r'(\d+)', os.path.basename(x)).group(1)))
for path in paths:
    cur = None
    for line in open(path, errors='replace'):
        m = re.match(r'=== (C\d\d) on (\S+)', line)
        if m:
            cur = (m.group(2), m.group(1))
            continue
        if cur is None:
            continue
        if line.startswith('VIOLATION'):
            res.setdefault(cur, ['detected', ''])
            res[cur][0] = 'detected'
        elif line.startswith('    ') and res.get(cur, [''])[0] == 'detected' and not res[cur][1]:
            res[cur][1] = line.strip()[:160]
        elif line.startswith('INCONCLUSIVE'):
            res[cur] = ['inconclusive', line.strip()[:160]]
        elif 'held on everything explored' in line:
            res[cur] = ['missed', '']
        m = re.match(r'exit=(\d+)', line)
        if m and cur in res:
            res[cur].append(int(m.group(1)))
            first.setdefault(cur, res[cur][0])
            cur = None
names = sorted({k[0] for k in res})
out = ['# Seeded changes and the checks run against them', '',
       'Each row: a seeded change (see its directory for patch.diff, the demonstration, notes and meta.json), the property it was written to break,',
       'and the verdict of each check that was run against it on a scratch clone (`tools/try_mutant.sh`). `detected` = exit 1 with a natively',
       'reproduced VIOLATION; `missed` = exit 0; `inconclusive` = exit 2 (engine limitation, never a pass). Where a check was strengthened after a',
       'miss, the first verdict is given in brackets.', '', '| seeded change | written against | what it needs | check: verdict |', '|---|---|---|---|']
for n in names:
    meta = {}
    p = os.path.join(V, 'seeded', n, 'meta.json')
    if os.path.exists(p):
        meta = json.load(open(p))
    cells = []
    for (nm, chk), r in sorted(res.items()):
        if nm != n:
            continue
        f = first.get((nm, chk))
        cells.append(f'{chk}: **{r[0]}**' + (f' (first run: {f})' if f and f != r[0] else ''))
    out.append(f"| {n} | {meta.get('breaks_property', '?')} | {meta.get('needs_to_manifest', '')} | {'; '.join(cells)} |")
out += ['', '## Counterexamples reported (first line of each detection)', '']
for (nm, chk), r in sorted(res.items()):
    if r[0] == 'detected' and r[1]:
        out.append(f'* {nm} / {chk}: {r[1]}')
open(os.path.join(V, 'seeded', 'RESULTS.md'), 'w').write('\n'.join(out) + '\n')
print('\n'.join(out[8:8 + len(names) + 2]))
