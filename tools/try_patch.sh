#!/bin/bash
# tools/try_patch.sh <patch.diff> <check id>...   apply a patch to /repo, run the checks (quick), undo it.
set -u
patch="$(realpath "$1")"; shift
cd /repo || exit 9
git diff --quiet || { echo "/repo has uncommitted changes"; exit 9; }
git apply "$patch" || { echo "patch does not apply"; exit 9; }
trap 'git -C /repo checkout -- . ; git -C /repo clean -fdq -e target' EXIT
cd /verif
rc=0
for id in "$@"; do
  echo "=== $id on $(basename $(dirname $patch))"
  ./check "$id" --tier "${TIER:-quick}" 2>&1 | grep -E 'VIOLATION|KNOWN-FINDING|INCONCLUSIVE|held on|^    ' | head -12
  echo "exit=${PIPESTATUS[0]}"
done
