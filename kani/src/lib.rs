//! Kani leaf harnesses: compiled microscpi + heapless + core code, public API only.
#![allow(unused)]
#[cfg(kani)]
mod proofs {
    use microscpi::{Error, ErrorQueue, StaticErrorQueue, Value};

    fn any_error() -> Error {
        let k: u8 = kani::any();
        match k % 6 {
            0 => Error::UndefinedHeader,
            1 => Error::QueueOverflow,
            2 => Error::SyntaxError,
            3 => Error::DataTypeError,
            4 => Error::Custom(kani::any(), "c"),
            _ => Error::NumericDataError,
        }
    }

    /// reference: array FIFO with the IEEE 488.2 overflow rule (full => newest entry := QueueOverflow)
    struct Model<const N: usize> { items: [Option<Error>; N], len: usize }
    impl<const N: usize> Model<N> {
        fn new() -> Self { Model { items: [None; N], len: 0 } }
        fn push(&mut self, e: Error) {
            if self.len < N { self.items[self.len] = Some(e); self.len += 1; }
            else if N > 0 { self.items[N - 1] = Some(Error::QueueOverflow); }
        }
        fn pop(&mut self) -> Option<Error> {
            if self.len == 0 { return None; }
            let r = self.items[0];
            let mut i = 1;
            while i < self.len { self.items[i - 1] = self.items[i]; i += 1; }
            self.len -= 1;
            self.items[self.len] = None;
            r
        }
    }

    fn queue_vs_model<const N: usize, const D: usize>() {
        let mut q: StaticErrorQueue<N> = StaticErrorQueue::new();
        let mut m: Model<N> = Model::new();
        let mut pops = 0;
        let mut i = 0;
        while i < D {
            let op: u8 = kani::any();
            if op % 3 == 0 {
                let a = q.pop_error();
                let b = m.pop();
                assert!(a == b);
                pops += 1;
            } else {
                let e = any_error();
                q.push_error(e);
                m.push(e);
            }
            assert!(q.error_count() == m.len);
            assert!(q.error_count() <= N);
            i += 1;
        }
        // drain: order of everything that is left
        let mut k = 0;
        while k < N + 1 {
            assert!(q.pop_error() == m.pop());
            k += 1;
        }
        kani::cover!(pops > 0 && m.len == 0, "reached: some pop happened");
    }

    #[kani::proof]
    #[kani::unwind(8)]
    fn queue_n1_d5() { queue_vs_model::<1, 5>(); }
    #[kani::proof]
    #[kani::unwind(8)]
    fn queue_n2_d6() { queue_vs_model::<2, 6>(); }
    #[kani::proof]
    #[kani::unwind(9)]
    fn queue_n3_d6() { queue_vs_model::<3, 6>(); }
    #[kani::proof]
    #[kani::unwind(9)]
    fn queue_n4_d6() { queue_vs_model::<4, 6>(); }

    // ---- integer conversion contract: Value::{Decimal,Hexadecimal,Binary,Octal}(text) -> T
    fn digit_val(b: u8, radix: u32) -> Option<u32> {
        let d = match b { b'0'..=b'9' => (b - b'0') as u32, b'a'..=b'z' => (b - b'a') as u32 + 10, b'A'..=b'Z' => (b - b'A') as u32 + 10, _ => return None };
        if d < radix { Some(d) } else { None }
    }

    /// mathematical value of [+|-]digits in i128, None if not of that form
    fn oracle(text: &[u8], radix: u32, signed: bool) -> Option<i128> {
        if text.is_empty() { return None; }
        let (neg, rest) = match text[0] { b'+' => (false, &text[1..]), b'-' if signed => (true, &text[1..]), _ => (false, text) };
        if rest.is_empty() { return None; }
        let mut v: i128 = 0;
        let mut i = 0;
        while i < rest.len() {
            let d = digit_val(rest[i], radix)?;
            v = v * radix as i128 + d as i128;
            i += 1;
        }
        Some(if neg { -v } else { v })
    }

    macro_rules! conv_harness {
        ($name:ident, $t:ty, $signed:expr, $variant:ident, $radix:expr, $len:expr) => {
            #[kani::proof]
            #[kani::unwind(8)]
            fn $name() {
                let bytes: [u8; $len] = kani::any();
                let n: usize = kani::any();
                kani::assume(n <= $len);
                let mut i = 0;
                while i < $len { kani::assume(bytes[i] < 128); i += 1; }
                let text = core::str::from_utf8(&bytes[..n]).unwrap();
                let v = Value::$variant(text);
                let r: Result<$t, Error> = (&v).try_into();
                match oracle(&bytes[..n], $radix, $signed) {
                    Some(x) if x >= <$t>::MIN as i128 && x <= <$t>::MAX as i128 => assert!(r == Ok(x as $t)),
                    _ => assert!(r == Err(Error::NumericDataError)),
                }
                kani::cover!(r.is_ok(), "reached: some text converts");
            }
        };
    }
    conv_harness!(conv_u8_dec, u8, false, Decimal, 10, 4);
    conv_harness!(conv_i8_dec, i8, true, Decimal, 10, 4);
    conv_harness!(conv_u16_dec, u16, false, Decimal, 10, 6);
    conv_harness!(conv_i16_dec, i16, true, Decimal, 10, 6);
    conv_harness!(conv_u8_hex, u8, false, Hexadecimal, 16, 3);
    conv_harness!(conv_i8_hex, i8, true, Hexadecimal, 16, 3);
    conv_harness!(conv_i16_hex, i16, true, Hexadecimal, 16, 5);
    conv_harness!(conv_u8_bin, u8, false, Binary, 2, 6);
    conv_harness!(conv_u8_oct, u8, false, Octal, 8, 4);

    // ---- Node::child on a macro-built tree: case-insensitive match of the declared spellings (C01, C11)
    use microscpi::{Interface, Node};
    pub struct KDev;
    impl microscpi::ErrorHandler for KDev {
        fn handle_error(&mut self, _e: Error) {}
    }
    #[microscpi::interface]
    impl KDev {
        #[scpi(cmd = "VOLTage")]
        fn h0(&mut self) -> Result<(), Error> { Ok(()) }
        #[scpi(cmd = "VOLT_AC")]
        fn h1(&mut self) -> Result<(), Error> { Ok(()) }
        #[scpi(cmd = "Z")]
        fn h2(&mut self) -> Result<(), Error> { Ok(()) }
        #[scpi(cmd = "*Z9")]
        fn h3(&mut self) -> Result<(), Error> { Ok(()) }
        #[scpi(cmd = "ZZ")]
        fn h4(&mut self) -> Result<(), Error> { Ok(()) }
    }

    fn fold(b: u8) -> u8 { if b >= b'a' && b <= b'z' { b - 32 } else { b } }

    /// which declaration a root-level mnemonic spells (short or long form), from the declaration strings
    fn reference_child(name: &[u8]) -> Option<usize> {
        let keys: [(&[u8], usize); 6] = [(b"VOLT", 0), (b"VOLTAGE", 0), (b"VOLT_AC", 1), (b"Z", 2), (b"*Z9", 3), (b"ZZ", 4)];
        let mut k = 0;
        while k < 6 {
            let key = keys[k].0;
            if key.len() == name.len() {
                let mut same = true;
                let mut i = 0;
                while i < key.len() {
                    if fold(key[i]) != fold(name[i]) { same = false; }
                    i += 1;
                }
                if same { return Some(keys[k].1); }
            }
            k += 1;
        }
        None
    }

    #[kani::proof]
    #[kani::unwind(9)]
    fn child_lookup() {
        let bytes: [u8; 7] = kani::any();
        let n: usize = kani::any();
        kani::assume(n <= 7);
        let mut i = 0;
        while i < 7 { kani::assume(bytes[i] < 128); i += 1; }
        let name = core::str::from_utf8(&bytes[..n]).unwrap();
        let dev = KDev;
        let got = dev.root_node().child(name);
        let want = reference_child(&bytes[..n]);
        match want {
            Some(k) => assert!(got.is_some() && got.unwrap().command == Some(k)),
            None => assert!(got.is_none()),
        }
        kani::cover!(got.is_some(), "reached: some name matches");
    }

    #[kani::proof]
    fn conv_wrong_kind() {
        let v = Value::String("12");
        let r: Result<u8, Error> = (&v).try_into();
        assert!(r == Err(Error::DataTypeError));
        let v = Value::Arbitrary(b"1");
        let r: Result<i16, Error> = (&v).try_into();
        assert!(r == Err(Error::DataTypeError));
        let v = Value::Decimal("1");
        let r: Result<&str, Error> = (&v).try_into();
        assert!(r == Err(Error::DataTypeError));
        let r: Result<&[u8], Error> = (&Value::Arbitrary(b"ab")).try_into();
        assert!(r == Ok(&b"ab"[..]));
    }
}
